"""C18 - Every request gets a well-formed answer and cannot inject markup.   (DESIGN.md section 19)

One MapProxy application with every service (WMS 1.0.0-1.3.0, WMTS KVP + RESTful, TMS, KML, demo), cached and
direct layers, dimensions, feature info and legends is called through a hand-built PEP 3333 environ
(vcheck.wsgicall) with requests from a Hypothesis grammar (every known path and parameter, per-parameter
mutation, hostile headers) and - thorough tier - from an atheris coverage-guided byte campaign.  The upstream is
a synthetic server (patched HTTPClient.open) whose behaviour per URL is part of the generated case.

Decision on 5xx answers: the property demands "a complete HTTP response without raising".  The 500 page that
MapProxyApp's catch-all produces ('internal error', text/plain, no stack trace) *is* a complete response, so it
is accepted; the exception class behind every such page is counted in stats.notes ('catchall-500:...') as
information.  What is a violation: an exception escaping the WSGI callable / body iterator, a response that
breaks the response-side rules of wsgiref.validate / PEP 3333, an undecodable / mislabelled / wrongly sized
image, an XML or HTML document whose structure was changed by request data, a stack trace or server path in a body.
"""
import hashlib
import io
import json
import os
import re
import shutil
import subprocess
import sys
import tempfile
from email.message import Message
from urllib.parse import parse_qsl, quote, unquote_to_bytes

from hypothesis import strategies as st

from .. import core, markup, wsgicall

PROPERTY = 'C18'
LEVEL = 'exploration'
RULE = ('Hypothesis grammar over the known paths and parameters of every service (WMS GetMap / GetFeatureInfo / '
        'GetCapabilities / GetLegendGraphic in versions 1.0.0-1.3.0, WMTS KVP and RESTful, TMS, KML, demo incl. '
        'static files, root, unknown paths) with 0-3 mutations per request (parameter missing, duplicated, empty, '
        'huge, wrong type, non-ASCII, control characters, injection markers, key case, path segments) and drawn '
        'headers (Host, X-Forwarded-Host/Proto, X-Script-Name, If-None-Match, If-Modified-Since, Accept, ...) and '
        'a drawn upstream behaviour (ok / HTTP errors / no connection / text / XML exception / html / garbage / '
        'truncated / wrong size); thorough tier adds an atheris byte-level campaign. A case is non-trivial when '
        'the request reaches a service handler (not the 404 fallback / welcome page); distinct = distinct '
        '(method, path, query, headers, upstream behaviour).')
ASSUMPTIONS = [
    'a 500 page produced by the catch-all (no stack trace in the body) counts as a complete response (counted, not judged)',
    'text/plain answers are unescaped by design and are only checked for stack traces / server paths',
    'QUERY_STRING and header values carry no raw control characters or spaces (no gateway delivers them); PATH_INFO may, after percent-decoding',
    'generated WIDTH/HEIGHT are capped at 3000 px to protect the harness',
    'image size is judged only when WIDTH and HEIGHT are given exactly once as plain integers (tile services: the tile size of the addressed grid)',
    'successful feature-info and legend answers are upstream content passed through by design: structure judged against the fixed documents of the synthetic upstream',
    'an image body that is byte-identical to what the lying upstream sent (garbage labelled image/*) is passed through by design and not judged',
    'trusted: lxml (well-formedness, HTML recovery), Pillow (decoding), the element sets in vcheck/markup.py copied from the 4.0.2 templates',
]

CONFIG = '''
globals:
  cache:
    base_dir: %(root)s/cache_data
    lock_dir: %(root)s/locks
    tile_lock_dir: %(root)s/tile_locks
    meta_size: [2, 2]
    meta_buffer: 8
    concurrent_tile_creators: 1
  image:
    paletted: false
  http:
    hide_error_details: false
services:
  demo:
  kml:
    use_grid_names: true
  tms:
    use_grid_names: true
  wmts:
    kvp: true
    restful: true
    restful_template: '/{Layer}/{TileMatrixSet}/{Time}/{Elevation}/{TileMatrix}/{TileCol}/{TileRow}.{Format}'
    restful_featureinfo_template: '/{Layer}/{TileMatrixSet}/{Time}/{Elevation}/{TileMatrix}/{TileCol}/{TileRow}/{I}/{J}.{InfoFormat}'
    featureinfo_formats:
      - mimetype: application/gml+xml; version=3.1
        suffix: gml
      - mimetype: application/json
        suffix: geojson
      - mimetype: text/html
        suffix: html
    md:
      title: C18 WMTS
  wms:
    srs: ['EPSG:4326', 'EPSG:3857', 'EPSG:900913', 'EPSG:25832', 'CRS:84']
    image_formats: ['image/png', 'image/jpeg', 'image/gif', 'image/tiff']
    featureinfo_types: ['text', 'html', 'xml', 'json']
    max_output_pixels: [3000, 3000]
    md:
      title: C18 harness
      abstract: every service
      online_resource: http://example.org/
      contact:
        person: Bob
        email: bob@example.org
      access_constraints: none
      fees: none
layers:
  - name: direct
    title: Direct layer
    sources: [up_wms]
  - name: cached
    title: Cached layer
    sources: [c_merc]
  - name: geo
    title: Cached geodetic jpeg layer
    sources: [c_geo]
  - name: tiled
    title: Cache of a tile source
    sources: [c_tiles]
  - name: dims
    title: Layer with dimensions
    sources: [c_dims]
    dimensions:
      time:
        values: ["2020-01-01", "2020-01-02"]
        default: "2020-01-01"
      elevation:
        values: [0, 1000]
        default: "0"
  - name: grp
    title: Group
    layers:
      - name: grp_a
        title: Group member a
        sources: [up_wms]
      - name: grp_b
        title: Group member b
        sources: [c_small]
  - name: legend
    title: Static legend
    legendurl: http://upstream.invalid/legend.png
    sources: [up_wms_nofi]
  - name: cov
    title: Source with coverage
    sources: [up_wms_cov]
  - name: north
    title: Cached layer of a source that covers the northern hemisphere only (empty tiles elsewhere)
    sources: [c_north]
caches:
  c_north:
    grids: [GLOBAL_MERCATOR]
    sources: [up_wms_north]
  c_merc:
    grids: [GLOBAL_WEBMERCATOR]
    sources: [up_wms]
  c_geo:
    grids: [GLOBAL_GEODETIC]
    format: image/jpeg
    sources: [up_wms_nofi]
    disable_storage: true
  c_tiles:
    grids: [GLOBAL_MERCATOR]
    sources: [up_tiles]
    disable_storage: true
  c_dims:
    grids: [GLOBAL_WEBMERCATOR]
    sources: [up_wms_dims]
    meta_size: [1, 1]
    meta_buffer: 0
    disable_storage: true
  c_small:
    grids: [small]
    sources: [up_wms_nofi]
    disable_storage: true
grids:
  small:
    srs: 'EPSG:25832'
    bbox: [300000, 5200000, 900000, 6000000]
    tile_size: [128, 128]
    origin: nw
    num_levels: 6
sources:
  up_wms:
    type: wms
    req:
      url: http://upstream.invalid/wms
      layers: a,b
    wms_opts:
      featureinfo: true
      legendgraphic: true
  up_wms_nofi:
    type: wms
    req:
      url: http://upstream.invalid/wms2
      layers: c
  up_wms_cov:
    type: wms
    req:
      url: http://upstream.invalid/wmsc
      layers: e
    coverage:
      bbox: [5, 45, 15, 55]
      srs: 'EPSG:4326'
    wms_opts:
      featureinfo: true
  up_wms_north:
    type: wms
    req:
      url: http://upstream.invalid/wmsn
      layers: n
    coverage:
      bbox: [-180, 10, 180, 80]
      srs: 'EPSG:4326'
  up_wms_dims:
    type: wms
    req:
      url: http://upstream.invalid/wmsd
      layers: d
    forward_req_params: ['time', 'elevation']
    wms_opts:
      featureinfo: true
  up_tiles:
    type: tile
    url: http://upstream.invalid/tiles/%%(z)s/%%(x)s/%%(y)s.png
    grid: GLOBAL_MERCATOR
'''

WMS_LAYERS = ['direct', 'cached', 'geo', 'tiled', 'dims', 'grp', 'grp_a', 'grp_b', 'legend', 'cov', 'north']
#: tile layer -> (grid name, tile size, image format extension)
TILE_LAYERS = {
    'cached': ('GLOBAL_WEBMERCATOR', (256, 256), 'png'),
    'geo': ('GLOBAL_GEODETIC', (256, 256), 'jpeg'),
    'tiled': ('GLOBAL_MERCATOR', (256, 256), 'png'),
    'dims': ('GLOBAL_WEBMERCATOR', (256, 256), 'png'),
    'grp_b': ('small', (128, 128), 'png'),
    'north': ('GLOBAL_MERCATOR', (256, 256), 'png'),
}
GRID_TILE_SIZE = {'GLOBAL_WEBMERCATOR': (256, 256), 'GLOBAL_GEODETIC': (256, 256), 'GLOBAL_MERCATOR': (256, 256),
                  'small': (128, 128)}
ALL_TILE_SIZES = {(256, 256), (128, 128)}
HANDLERS = ('service', 'ows', 'wms', 'wmts', 'tms', 'tiles', 'kml', 'demo')

UPSTREAM_MODES = ['ok'] * 12 + ['http500', 'http404', 'http401', 'noconn', 'text', 'xmlexc', 'html', 'garbage',
                  'truncated', 'empty', 'wrongsize', 'noct', 'http204']

PIL_MIME = {'PNG': 'image/png', 'JPEG': 'image/jpeg', 'GIF': 'image/gif', 'TIFF': 'image/tiff'}

# fixed documents of the synthetic upstream (feature info); registered with the structure whitelist
FI_XML = b'<?xml version="1.0"?><upinfo><upfeature><upattr name="id">1</upattr></upfeature></upinfo>'
FI_HTML = b'<html><body><table class="upinfo"><tr><td>feature</td><td>1</td></tr></table></body></html>'
FI_TEXT = b'upinfo: feature 1\n'
FI_JSON = b'{"type": "FeatureCollection", "features": [{"id": 1}]}'
markup.register_doc('upinfo', 'upstream-featureinfo', {'upfeature', 'upattr'})


# ------------------------------------------------------------------------------------------------
# synthetic upstream


class FakeResponse(io.BytesIO):
    def __init__(self, body, content_type, code=200):
        io.BytesIO.__init__(self, body)
        self.headers = Message()
        if content_type:
            self.headers['Content-type'] = content_type
        self.code = self.status = code

    def info(self):
        return self.headers

    def geturl(self):
        return ''


_IMG_CACHE = {}


def _image_bytes(size, fmt):
    from PIL import Image
    fmt = {'jpg': 'jpeg', 'tif': 'tiff'}.get(fmt, fmt)
    if fmt not in ('png', 'jpeg', 'gif', 'tiff'):
        fmt = 'png'
    key = (size, fmt)
    if key not in _IMG_CACHE:
        if len(_IMG_CACHE) > 300:
            _IMG_CACHE.clear()
        img = Image.new('RGB', size, (90, 140, 200))
        img.putpixel((0, 0), (200, 60, 60))
        buf = io.BytesIO()
        img.save(buf, fmt)
        _IMG_CACHE[key] = buf.getvalue()
    return _IMG_CACHE[key], 'image/' + fmt


class Upstream(object):
    """Replaces mapproxy.client.http.HTTPClient.open.  The behaviour for a URL is modes[blake2(url) % len(modes)],
    i.e. a pure function of the case (independent of call order)."""

    def __init__(self):
        self.modes = ['ok']
        self.calls = 0
        self.fi_calls = 0
        self.fi_lied = False
        self.lies = []     # bodies sent as images that are not the image a standards-following server would send

    def mode_for(self, url):
        h = int(hashlib.blake2b(url.encode('utf-8', 'replace'), digest_size=4).hexdigest(), 16)
        return self.modes[h % len(self.modes)]

    def open(self, client, url, data=None, method=None):
        from mapproxy.client.http import HTTPClientError
        self.calls += 1
        mode = self.mode_for(url)
        if self.calls > 400:
            mode = 'noconn'   # protects the harness against tile storms; deterministic per case
        args = dict((k.lower(), v) for k, v in parse_qsl(url.partition('?')[2], keep_blank_values=True))
        if data:
            body = data.decode('utf-8', 'replace') if isinstance(data, bytes) else data
            args.update((k.lower(), v) for k, v in parse_qsl(body, keep_blank_values=True))
        if mode.startswith('http') and mode != 'http204':
            code = int(mode[4:])
            raise client.handle_url_exception(url, 'HTTP Error', str(code), response_code=code)
        if mode == 'http204':
            raise HTTPClientError('HTTP Error "204 No Content"', response_code=204)
        if mode == 'noconn':
            raise client.handle_url_exception(url, 'No response from URL', 'Connection refused')
        req = args.get('request', '').lower()
        if req in ('getfeatureinfo', 'feature_info'):
            fmt = args.get('info_format', '')
            self.fi_calls += 1
            if mode in ('text', 'garbage', 'noct', 'empty', 'html', 'xmlexc'):
                self.fi_lied = True      # the answer is not of the type that was asked for
            if mode in ('text', 'garbage', 'noct', 'empty'):
                return FakeResponse(FI_TEXT if mode != 'empty' else b'', 'text/plain' if mode != 'noct' else None)
            if 'json' in fmt:
                return FakeResponse(FI_JSON, 'application/json')
            if 'html' in fmt or mode == 'html':
                return FakeResponse(FI_HTML, 'text/html')
            if 'xml' in fmt or 'gml' in fmt:
                return FakeResponse(FI_XML, fmt.split(';')[0] if mode != 'xmlexc' else 'text/xml')
            return FakeResponse(FI_TEXT, 'text/plain')
        if mode == 'text':
            return FakeResponse(('upstream says no: ' + markup.MARKER + '\n').encode(), 'text/plain')
        if mode == 'xmlexc':
            return FakeResponse(('<?xml version="1.0"?><ServiceExceptionReport><ServiceException>bad %s'
                                 '</ServiceException></ServiceExceptionReport>' % markup.MARKER).encode(),
                                'application/vnd.ogc.se_xml')
        if mode == 'html':
            return FakeResponse(('<html><body>proxy error ' + markup.MARKER + '</body></html>').encode(), 'text/html')
        # image answers
        try:
            w = max(1, min(4000, int(float(args.get('width', 256)))))
            h = max(1, min(4000, int(float(args.get('height', 256)))))
        except (ValueError, OverflowError):
            w = h = 256
        fmt = args.get('format', '')
        if not fmt:
            fmt = url.partition('?')[0].rsplit('.', 1)[-1]
        fmt = fmt.split(';')[0].split('/')[-1].lower()
        if req == 'getlegendgraphic' or 'legend' in url.partition('?')[0]:
            w, h = 40, 30
        if mode == 'wrongsize':
            w, h = max(1, w // 2 + 3), h + 5
        body, ct = _image_bytes((w, h), fmt)
        if mode == 'wrongsize':
            self.lies.append(body)
        if mode == 'garbage':
            body = b'\x00\x01garbage, not an image ' * 20
            self.lies.append(body)
        elif mode == 'truncated':
            body = body[:max(8, len(body) // 2)]
            self.lies.append(body)
        elif mode == 'empty':
            body = b''
            self.lies.append(body)
        elif mode == 'noct':
            ct = None
        return FakeResponse(body, ct)


# ------------------------------------------------------------------------------------------------
# harness: application, patched upstream, stubbed self-fetch of the demo service


class _HandlerProbe(object):
    def __init__(self, name, inner, log):
        self._name, self._inner, self._log = name, inner, log

    def handle(self, req):
        self._log.append(self._name)
        return self._inner.handle(req)

    def __getattr__(self, item):
        return getattr(self._inner, item)


class Harness(object):
    def __init__(self, parent=None):
        import logging
        self.root = tempfile.mkdtemp(prefix='c18-', dir=parent)
        self._undo = []
        try:
            conf = os.path.join(self.root, 'mapproxy.yaml')
            with open(conf, 'w') as f:
                f.write(CONFIG % {'root': self.root})
            logging.disable(logging.CRITICAL)
            self._undo.append(lambda: logging.disable(logging.NOTSET))
            import warnings
            warnings.simplefilter('ignore')
            import mapproxy
            from mapproxy.wsgiapp import make_wsgi_app
            from mapproxy.client import http as mhttp
            self.repo_root = os.path.dirname(os.path.dirname(os.path.abspath(mapproxy.__file__)))
            self.app = make_wsgi_app(conf)
            self.reached = []
            for name in list(self.app.handlers):
                self.app.handlers[name] = _HandlerProbe(name, self.app.handlers[name], self.reached)
            self.upstream = Upstream()
            orig_open = mhttp.HTTPClient.open
            up = self.upstream

            def fake_open(client, url, data=None, method=None):
                return up.open(client, url, data=data, method=method)
            mhttp.HTTPClient.open = fake_open
            self._undo.append(lambda: setattr(mhttp.HTTPClient, 'open', orig_open))
            # demo service fetches its own capabilities through urllib: answer with a capabilities-like document
            # that contains the marker as an element (the demo page must show it as escaped text)
            import urllib.request
            orig_urlopen = urllib.request.urlopen
            self.selffetch = []

            def fake_urlopen(url, *a, **kw):
                u = url if isinstance(url, str) else url.full_url
                self.selffetch.append(u)
                import http.client
                if re.search(r'[\x00-\x20\x7f]', u):   # what http.client refuses before connecting
                    raise http.client.InvalidURL("URL can't contain control characters. %r" % u)
                return io.BytesIO(b'<?xml version="1.0"?><Capabilities><zq9x a="b">selffetch</zq9x>'
                                  b'<Title>a &amp; b</Title></Capabilities>')
            urllib.request.urlopen = fake_urlopen
            self._undo.append(lambda: setattr(urllib.request, 'urlopen', orig_urlopen))
            # observation only: count answers that are the memoised per-layer "empty tile"
            from mapproxy.service import tile as mtile
            orig_empty = mtile.TileLayer.empty_response
            self.empty_tiles = [0]
            counter = self.empty_tiles

            def counting_empty_response(layer, *a, **kw):
                counter[0] += 1
                return orig_empty(layer, *a, **kw)
            mtile.TileLayer.empty_response = counting_empty_response
            self._undo.append(lambda: setattr(mtile.TileLayer, 'empty_response', orig_empty))
        except BaseException:
            self.close()
            raise

    def close(self):
        for u in reversed(self._undo):
            try:
                u()
            except Exception:
                pass
        self._undo = []
        shutil.rmtree(self.root, ignore_errors=True)

    def execute(self, case):
        """Run the call plan of a case.  -> list of Step (one per sent request, in completion order)"""
        self.upstream.modes = list(case.get('upstream') or ['ok'])
        del self.selffetch[:]
        self.empty_tiles[0] = 0
        ops = expand_plan(case.get('plan') or 'single')
        if case.get('warmup'):
            ops = ops + [(op, i + 100, r) for op, i, r in ops]
        pending, steps, begun = {}, [], 0
        try:
            for op, inst, which in ops:
                if op == 'B':
                    req = case if which == 0 else neighbour_of(case)
                    self.upstream.calls = 0
                    self.upstream.fi_calls = 0
                    self.upstream.fi_lied = False
                    self.upstream.lies = []
                    del self.reached[:]
                    env = wsgicall.build_environ(req.get('method', 'GET'), req['path'], req.get('query', ''),
                                                 [tuple(h) for h in req.get('headers', [])],
                                                 file_wrapper=req.get('fw', True))
                    pend = wsgicall.begin(self.app, env)
                    pending[inst] = Step(req, pend, list(self.reached), self.upstream, begun)
                    begun += 1
                else:
                    st_ = pending.pop(inst)
                    st_.res = wsgicall.complete(st_.pending)
                    steps.append(st_)
            for inst in sorted(pending):     # plans always complete what they begin; belt and braces
                st_ = pending.pop(inst)
                st_.res = wsgicall.complete(st_.pending)
                steps.append(st_)
        finally:
            for d in ('cache_data', 'locks', 'tile_locks'):
                p = os.path.join(self.root, d)
                if os.path.isdir(p):
                    shutil.rmtree(p, ignore_errors=True)
        return steps


class Step(object):
    """one request of a call plan: the request, its result and what the upstream did while it was handled"""

    def __init__(self, req, pending, reached, upstream, order):
        self.req, self.pending, self.reached, self.order = req, pending, reached, order
        self.res = None
        self.calls, self.fi_calls, self.fi_lied = upstream.calls, upstream.fi_calls, upstream.fi_lied
        self.lies = list(upstream.lies)


#: call plans: A = the request itself, N = its neighbour (neighbour_of); "(..)" = the responses are begun (application
#: called, body not consumed) in the written order before any of them is consumed, "r" = consumed in reverse order.
#: A response is always consumed completely and then closed (PEP 3333) when it is completed.
PLANS = {
    'single': 'A',
    'twice': 'A A',
    'thrice': 'A A A',
    'neighbour-after': 'A N',
    'neighbour-between': 'A N A',
    'neighbour-first': 'N A',
    'overlap-same': '(A A)',
    'overlap-neighbour': '(A N)',
    'overlap-reversed': '(A N)r',
    'warm-overlap': 'A (A N)',
    'warm-overlap-reversed': 'N (N A)r',
}


def expand_plan(name):
    """-> list of ('B' begin | 'C' complete, instance number, 0 = the request itself / 1 = its neighbour)"""
    spec = PLANS.get(name, 'A')
    ops, inst = [], 0
    for tok in re.findall(r'\([AN ]+\)r?|[AN]', spec):
        if tok[0] == '(':
            members = [(inst + i, 0 if m_ == 'A' else 1) for i, m_ in enumerate(re.findall(r'[AN]', tok))]
            inst += len(members)
            ops += [('B', i, w) for i, w in members]
            ops += [('C', i, w) for i, w in (reversed(members) if tok.endswith('r') else members)]
        else:
            ops += [('B', inst, 0 if tok == 'A' else 1), ('C', inst, 0 if tok == 'A' else 1)]
            inst += 1
    return ops


def neighbour_of(case):
    """A request next to `case` (pure function of the case): the neighbouring tile column for tile addresses in
    the path or in TILECOL, otherwise the same request with one more (ignored) parameter."""
    n = dict(case)
    path = wsgicall.to_wire(case['path'])
    m_ = re.search(r'/(\d{1,9})/(-?\d+)(\.\w+)$', path)
    if m_:
        n['path'] = path[:m_.start(1)] + str(int(m_.group(1)) + 1) + path[m_.end(1):]
        return n
    q = wsgicall.to_wire(case.get('query', ''))
    m_ = re.search(r'(?i)(^|&)(tilecol=)(\d{1,9})(?=&|$)', q)
    if m_:
        n['query'] = q[:m_.start(3)] + str(int(m_.group(3)) + 1) + q[m_.end(3):]
        return n
    n['query'] = q + ('&' if q else '') + 'zq9n=1'
    return n


_HARNESS = None


def harness(parent=None):
    global _HARNESS
    if _HARNESS is None:
        _HARNESS = Harness(parent)
    return _HARNESS


def close_harness():
    global _HARNESS
    if _HARNESS is not None:
        _HARNESS.close()
        _HARNESS = None


# ------------------------------------------------------------------------------------------------
# request inspection helpers (work on the wire form, so they serve the grammar and the byte campaign alike)


def decoded_args(query):
    """case-insensitive multi dict of the query string the way a standards-following server reads it"""
    out = {}
    try:
        pairs = parse_qsl(wsgicall.to_wire(query), keep_blank_values=True, encoding='utf-8', errors='replace')
    except ValueError:
        return out
    for k, v in pairs:
        out.setdefault(k.lower(), []).append(v)
    return out


def decoded_path(path):
    return unquote_to_bytes(wsgicall.to_wire(path).encode('latin-1')).decode('latin-1')


def header_value(case, name):
    name = name.lower()
    vals = [wsgicall.to_wire(v) for k, v in case.get('headers', []) if k.lower() == name]
    return ','.join(vals) if vals else None      # repeated headers are joined, as wsgicall.build_environ does


REQ_TYPES = {'getmap': 'getmap', 'map': 'getmap', 'getfeatureinfo': 'getfeatureinfo', 'feature_info': 'getfeatureinfo',
             'getcapabilities': 'getcapabilities', 'capabilities': 'getcapabilities',
             'getlegendgraphic': 'getlegendgraphic', 'gettile': 'gettile'}


def request_kind(case):
    """(first path segment or '', normalised request type) from the request alone"""
    p = decoded_path(case['path'])
    sn = header_value(case, 'x-script-name')
    if sn and p.startswith(sn):
        p = p[len(sn):]
    m = re.match(r'^/(\w+)', p)
    seg = m.group(1) if m else ''
    args = decoded_args(case.get('query', ''))
    rt = (args.get('request') or [''])[0].lower()
    rt = REQ_TYPES.get(rt, 'other' if rt else 'none')
    if seg in ('tms', 'tiles', 'kml', 'wmts') and rt == 'none':
        if re.search(r'/-?\d+/-?\d+/-?\d+\.\w+$', p) or re.search(r'/-?\d+/-?\d+\.\w+$', p):
            rt = 'tile'
        elif p.endswith('WMTSCapabilities.xml') or seg == 'tms':
            rt = 'getcapabilities'
        else:
            rt = 'other'
    if seg == 'demo':
        rt = 'static' if p.startswith('/demo/static/') else 'page'
    return seg, rt, p, args


HOSTISH = ('host', 'x-forwarded-host', 'x-forwarded-proto')
_HOSTILE_HOST_CHARS = r'[<>&"\']'


def hostish_hostile(case):
    for k, v in case.get('headers', []):
        if k.lower() in HOSTISH and re.search(_HOSTILE_HOST_CHARS, v):
            return True
    return False


_CTL_OR_WIDE = re.compile(r'[\x00-\x1f]|[^\x00-\xff]')


def exclusions(case):
    """Known-finding constructs present in the request -> list of finding keys (see KNOWN_* below)."""
    seg, rt, p, args = request_kind(case)
    p0 = decoded_path(case['path'])
    out = []
    if rt == 'getcapabilities' and hostish_hostile(case):
        out.append(SIG_CAPS_HOST)
    if seg in ('service', 'ows', 'wms'):
        exc = ','.join(args.get('exceptions', [])).lower()
        if ('image' in exc or 'blank' in exc) and any(v not in CONFIGURED_FORMATS for v in args.get('format', [])):
            out.append(SIG_HDR_IMGEXC)
        if rt == 'getfeatureinfo' and any(_CTL_OR_WIDE.search(v) for v in args.get('info_format', [])):
            out.append(SIG_HDR_FI)
    if seg in ('service', 'ows', 'wms') and rt == 'getlegendgraphic' and \
            any(v.split(';')[0].strip().lower() != 'image/png' for v in args.get('format', [])):
        out.append(SIG_LEGEND_TYPE)
    raw_seg = (re.match(r'^/(\w+)', p0) or re.match('()', '')).group(1)
    if (seg in XML_ERROR_SERVICES or raw_seg in XML_ERROR_SERVICES) and (_XML_ILLEGAL_ESC.search(wsgicall.to_wire(case['path']))
                                      or _XML_ILLEGAL_ESC.search(wsgicall.to_wire(case.get('query', '')))):
        out.append(SIG_XML_CTL)
    return out


SIG_CAPS_HOST = 'C18/xml/not-well-formed/capabilities/host-header'
SIG_LEGEND_TYPE = 'C18/image/type-mismatch/wms-legendgraphic'
SIG_XML_CTL = 'C18/xml/not-well-formed/xml-illegal-control-char-echoed'
XML_ERROR_SERVICES = ('service', 'ows', 'wms', 'wmts', 'tms')
#: percent-escapes (and raw forms) of characters that XML 1.0 cannot represent at all
_XML_ILLEGAL_ESC = re.compile(r'%(?:0[0-8bBcCeEfF]|1[0-9a-fA-F])|[\x00-\x08\x0b\x0c\x0e-\x1f]')
_XML_ILLEGAL_BYTES = re.compile(rb'[\x00-\x08\x0b\x0c\x0e-\x1f]')
SIG_HDR_IMGEXC = 'C18/wms-image-exception/content-type-is-raw-format'
CONFIGURED_FORMATS = ('image/png', 'image/jpeg', 'image/gif', 'image/tiff')
SIG_HDR_FI = 'C18/wsgi/bad-header-value/content-type/wms-featureinfo-info_format'


def _replace_param(query, names, fn):
    """rewrite the values of the named parameters (decoded, case-insensitive names) in a wire-form query string"""
    parts = []
    for part in re.split(r'(&)', wsgicall.to_wire(query)):      # '&' only, like urllib.parse.parse_qsl
        if part == '&':
            parts.append(part)
            continue
        k, eq, v = part.partition('=')
        kd = unquote_to_bytes(k.replace('+', ' ')).decode('utf-8', 'replace').lower()
        if kd in names:
            vd = unquote_to_bytes(v.replace('+', ' ')).decode('utf-8', 'replace')
            v = quote(fn(vd), safe='/:,;=')
            eq = '='
        parts.append(k + eq + v)
    return ''.join(parts)


def sanitize(case, keys):
    """Remove exactly the constructs of the open known findings from a request (generator-side exclusion)."""
    case = dict(case)
    if SIG_XML_CTL in keys:
        case['path'] = _XML_ILLEGAL_ESC.sub('_', wsgicall.to_wire(case['path']))
        case['query'] = _XML_ILLEGAL_ESC.sub('_', wsgicall.to_wire(case.get('query', '')))
    if SIG_CAPS_HOST in keys:
        case['headers'] = [[k, re.sub(_HOSTILE_HOST_CHARS, '_', v) if k.lower() in HOSTISH else v] for k, v in case['headers']]
    if SIG_LEGEND_TYPE in keys:
        case['query'] = _replace_param(case.get('query', ''), {'format'}, lambda vd: 'image/png')
    if SIG_HDR_IMGEXC in keys:
        case['query'] = _replace_param(case.get('query', ''), {'format'},
                                       lambda vd: vd if vd in CONFIGURED_FORMATS else 'image/png')
    if SIG_HDR_FI in keys:
        case['query'] = _replace_param(case.get('query', ''), {'info_format'}, lambda vd: _CTL_OR_WIDE.sub('_', vd))
    return case


def plain_int(values):
    if values is None or len(values) != 1:
        return None
    if re.match(r'^[0-9]{1,5}$', values[0]) and int(values[0]) >= 1:
        return int(values[0])
    return None


def expected_image_size(case):
    """-> (w, h) | set of sizes | None, from the request alone"""
    seg, rt, p, args = request_kind(case)
    if seg in ('service', 'ows', 'wms'):
        service = (args.get('service') or [''])[0].lower()
        if rt == 'getmap' and service in ('wms', ''):
            w, h = plain_int(args.get('width')), plain_int(args.get('height'))
            if w is not None and h is not None:
                return (w, h)
            return None
        if rt == 'gettile' and service == 'wmts':
            tms = args.get('tilematrixset')
            if tms and len(tms) == 1 and tms[0] in GRID_TILE_SIZE:
                return GRID_TILE_SIZE[tms[0]]
            return set(ALL_TILE_SIZES)
        return None
    if seg in ('tms', 'tiles', 'kml', 'wmts') and rt == 'tile':
        sizes = set()
        for name, size in GRID_TILE_SIZE.items():
            if ('/' + name + '/') in p:
                sizes.add(size)
        if len(sizes) == 1:
            return sizes.pop()
        return set(ALL_TILE_SIZES)
    return None


# ------------------------------------------------------------------------------------------------
# oracle


def sig(*parts):
    return 'C18/' + '/'.join(str(p) for p in parts)


def _root_guess(body):
    m = re.search(rb'<\s*([A-Za-z_][\w.-]*:)?([A-Za-z_][\w.-]*)[\s>/]', re.sub(rb'<\?.*?\?>|<!--.*?-->|<!DOCTYPE[^\[>]*(\[.*?\])?\s*>', b'',
                                                                              body[:4000], flags=re.S))
    return m.group(2).decode('ascii', 'replace') if m else 'unknown'


def request_text(case):
    return '\n'.join([decoded_path(case['path']), case.get('query', ''),
                      ' '.join(' '.join(decoded_args(case.get('query', '')).get(k, [])) for k in decoded_args(case.get('query', '')))]
                     + [v for _, v in case.get('headers', [])])


def judge(case, res, reached, h, st_, up=None):
    """-> list of (signature, message) for one executed case; also returns response classes via st_ (a list)."""
    out = []
    up = up if up is not None else h.upstream
    seg, rt, p, args = request_kind(case)
    where = '%s.%s' % (reached[0] if reached else 'none', rt)
    # 1. the call returns
    if res.raised is not None:
        r = res.raised
        out.append((sig('raised', r['type'], r['frame'], r['where']),
                    'exception escaped the WSGI application (%s): %s: %s' % (r['where'], r['type'], r['message'])))
        return out
    # 2. response-side WSGI rules
    for rule, msg in res.problems:
        if rule in ('header-value-ctl', 'header-not-latin1'):
            name = msg.split(':', 1)[0].replace('header ', '').strip().lower()
            exc = ','.join(args.get('exceptions', [])).lower()
            if name == 'content-type' and reached and reached[0] in ('service', 'ows', 'wms'):
                if rt == 'getfeatureinfo':
                    s = SIG_HDR_FI
                elif 'image' in exc or 'blank' in exc:
                    s = SIG_HDR_IMGEXC
                else:
                    s = sig('wsgi', 'bad-header-value', name, where)
            else:
                s = sig('wsgi', 'bad-header-value', name, where)
            out.append((s, 'response header not acceptable to a WSGI server: ' + msg))
        else:
            out.append((sig('wsgi', rule, where), 'response breaks the WSGI response rules: ' + msg))
    ct = res.content_type
    body = res.body
    st_.append('status:%s' % res.code)
    st_.append('ctype:%s' % (ct or 'none'))
    # 3. leaks (every body)
    reqtext = request_text(case)
    roots = [(label, path) for label, path in (('temp-root', h.root), ('repo', h.repo_root),
                                               ('site-packages', 'site-packages'), ('python-lib', '/lib/python3'))
             if path not in reqtext]
    for code, msg in markup.check_leaks(body, roots):
        out.append((sig(code, where), msg))
    # 4. images
    if ct.startswith('image/') and res.code == 200:
        if any(body == lie for lie in up.lies):
            st_.append('image:upstream-lie-passed-through')
        elif rt == 'static' or (ct == 'image/svg+xml'):
            st_.append('image:static-file')
        else:
            from PIL import Image
            img = None
            try:
                img = Image.open(io.BytesIO(body))
                img.load()
            except Exception as e:
                out.append((sig('image', 'undecodable', where), '200 %s response does not decode: %s' % (ct, str(e)[:100])))
            if img is not None:
                actual = PIL_MIME.get(img.format, 'image/' + str(img.format).lower())
                if actual != ct and rt == 'getlegendgraphic' and reached and reached[0] in ('service', 'ows', 'wms'):
                    out.append((SIG_LEGEND_TYPE, 'GetLegendGraphic answer declared %s but the body is %s' % (ct, actual)))
                elif actual != ct and reached and reached[0] in ('service', 'ows', 'wms') and ct not in CONFIGURED_FORMATS \
                        and re.search('image|blank', ','.join(args.get('exceptions', [])).lower()) \
                        and any(v.split(';')[0].strip().lower() == ct for v in args.get('format', [])):
                    out.append((SIG_HDR_IMGEXC, 'image exception declared %r (the raw FORMAT value) but the body is %s'
                                % (res.header('content-type'), actual)))
                elif actual != ct and not any(r in ('header-value-ctl', 'header-not-latin1') for r, _ in res.problems):
                    out.append((sig('image', 'type-mismatch', '%s-declared-%s' % (actual.split('/')[1],
                                                                               re.sub(r'[^a-z0-9.+-]', '_', ct.split('/')[1][:12])), where),
                                'declared %s but the body is %s' % (ct, actual)))
                exp = expected_image_size(case) if rt != 'getlegendgraphic' else None
                if exp is None:
                    st_.append('image:size-not-judged')
                elif isinstance(exp, set):
                    st_.append('image:size-any-tile-size')
                    if img.size not in exp:
                        out.append((sig('image', 'size', where), 'tile of size %r' % (img.size,)))
                else:
                    st_.append('image:size-judged')
                    if img.size != exp:
                        out.append((sig('image', 'size', where), 'image is %r, requested %r' % (img.size, exp)))
    # 5. feature info passed through from an upstream that answered with another type than asked for
    elif res.code == 200 and up.fi_calls and up.fi_lied:
        st_.append('featureinfo:upstream-lie-passed-through')
        for code, msg in markup.check_html(body):
            out.append((sig(code, where), 'feature info answer (status %s): %s' % (res.code, msg)))
    # 5. XML
    elif ('xml' in ct or ct == 'application/vnd.ogc.gml') and body.strip() and res.code not in (204, 304):
        kind, findings = markup.check_xml(body)
        st_.append('xml:%s' % (kind or 'unparsed'))
        for code, msg in findings:
            root = _root_guess(body)
            if code == 'xml/not-well-formed' and _XML_ILLEGAL_BYTES.search(body) and \
                    _XML_ILLEGAL_ESC.search(decoded_path(case['path']) + ' '.join(sum(args.values(), []) + list(args))):
                out.append((SIG_XML_CTL, '%s document (status %s) contains a control character that XML 1.0 cannot '
                            'represent, echoed from the request: %s' % (root, res.code, msg)))
            elif code == 'xml/not-well-formed' and rt == 'getcapabilities' and res.code == 200 and hostish_hostile(case):
                out.append((SIG_CAPS_HOST, 'capabilities document (%s) is not well-formed XML: %s' % (root, msg)))
            else:
                out.append((sig(code, root, where), 'XML answer (%s, status %s): %s' % (ct, res.code, msg)))
        if kind and any(m.replace("'", '&#x27;').replace('<', '&lt;')[:6] in body.decode('utf-8', 'replace') for m in (markup.MARKER,)) \
                and b'zq9x' in body:
            st_.append('echo:marker-escaped-in-xml')
    # 6. HTML
    elif ct == 'text/html' and res.code not in (204, 304):
        for code, msg in markup.check_html(body):
            out.append((sig(code, where), 'HTML answer (status %s): %s' % (res.code, msg)))
        if b'zq9x' in body:
            st_.append('echo:marker-escaped-in-html')
    elif ct == 'text/plain' and b'zq9x' in body:
        st_.append('echo:marker-in-text-plain(by design)')
    if res.code == 500 and body == b'internal error':
        lines = [ln for ln in res.errors.strip().splitlines() if ln.strip()]
        exc = lines[-1].split(':', 1)[0].strip()[:60] if lines else 'unknown'
        st_.append('catchall-500')
        st_.append('note:catchall-500:' + exc)
    return out


# ------------------------------------------------------------------------------------------------
# generator (a): grammar over known paths and parameters

M = markup.MARKER
VERSIONS = ['1.1.1', '1.3.0', '1.1.0', '1.0.0']
ODD_VERSIONS = ['1.2.0', '0.9.0', '2.0.0', '1.3', '1', '', 'abc', '1.1.1.1', '1..1']
SRS_BBOX = {
    'EPSG:4326': ['0,0,10,10', '-180,-90,180,90', '8,50,9,51', '6,46,14,54'],
    'CRS:84': ['0,0,10,10', '8,50,9,51'],
    'EPSG:3857': ['-20037508.34,-20037508.34,20037508.34,20037508.34', '0,0,1000000,1000000',
                  '890555,6446275,1001875,6621293'],
    'EPSG:900913': ['0,0,1000000,1000000'],
    'EPSG:25832': ['300000,5200000,900000,6000000', '500000,5600000,510000,5610000'],
}
ODD_SRS = ['EPSG:1', 'EPSG:99999', 'epsg:4326', 'EPSG:', '4326', 'urn:ogc:def:crs:EPSG::4326', 'EPSG:31467']
ODD_BBOX = ['10,10,0,0', '0,0,0,0', '0,0,10', '0,0,10,10,20', 'nan,nan,nan,nan', '-1e308,-1e308,1e308,1e308',
            'a,b,c,d', '0;0;10;10', '0,0,inf,10', ' 0, 0, 10, 10 ', '0,0,1e-300,1e-300']
SIZES = ['1', '2', '16', '64', '100', '200', '256', '300', '512', '13', '777']
ODD_SIZES = ['0', '-1', '3000', '100.0', '1e2', '0x10', '1_0', ' 10', '\u0661\u0662', '99999999999999999999', 'nan', 'inf']
FORMATS = ['image/png', 'image/jpeg', 'image/gif', 'image/tiff', 'image/png; mode=8bit']
ODD_FORMATS = ['png', 'image/PNG', 'image/svg+xml', 'text/html', 'image/', '/', 'image/png;', 'PNG', 'JPEG',
               'application/json', 'image/foo', 'image/jpeg; q=1']
EXCEPTIONS = ['application/vnd.ogc.se_xml', 'application/vnd.ogc.se_inimage', 'application/vnd.ogc.se_blank', 'XML',
              'INIMAGE', 'BLANK', 'inimage', 'blank', 'text/xml', 'application/vnd.ogc.se_inimage,blank']
INFO_FORMATS = ['text/plain', 'text/html', 'text/xml', 'application/vnd.ogc.gml', 'application/json', 'text/foo',
                'application/gml+xml; version=3.1']
TIMES = ['2020-01-01', '2020-01-02', 'default', '1999-01-01', '2020-01-01/2020-01-02', '../x']
ELEVS = ['0', '1000', 'default', '5', '-1']
GRIDS = sorted(GRID_TILE_SIZE)
HUGE = ['A' * 4000, '9' * 310, '1e400', '-1e308', '9' * 20, (M + ' ') * 60, 'a,' * 1500, '%' * 50, '/' * 300]
WRONG = ['abc', '1.5', '-1', 'NaN', 'inf', '1,2', 'true', '[]', '{}', 'None', '0x10', '\u0661\u0662\u0663', ' 12 ',
         '1e3', '+5', '0', '00', '1;2', '*', '..', '../../etc/passwd', 'C:\\x', 'null', '%s%s%n', '${7*7}', '{{7*7}}']
NONASCII = ['\u00fc', '\u2603', '\u202e\u202d', '\u00e9' * 200, '\U0001f600', 'Stra\u00dfe', '\uff1cscript\uff1e']
RAWBYTES = ['%FF%FE', '%C0%AF', '%ED%A0%80', '%FC', '%E2%28%A1', '%80']      # invalid UTF-8, kept as escapes
CONTROL = ['\x00', '\n', '\r\n', '\x1b[31m', '\x7f', '\t', 'a\x00b', 'image/png\r\nX-Foo: bar', '\r\n\r\n<html>',
           'text/plain\nSet-Cookie: a=b', '\x0b\x0c', 'x\x08']


def _kv(*pairs):
    return [[k, v] for k, v in pairs]


@st.composite
def wms_base(draw):
    ver = draw(st.sampled_from(VERSIONS * 4 + ['none', 'odd']))
    req = draw(st.sampled_from(['map', 'map', 'map', 'fi', 'fi', 'caps', 'legend']))
    path = draw(st.sampled_from(['/service', '/service', '/ows', '/wms', '/service/', '/service/extra']))
    p = []
    v100 = ver == '1.0.0'
    if draw(st.integers(0, 9)) > 0:
        p.append(['SERVICE', 'WMS'])
    if ver == 'odd':
        p.append(['VERSION', draw(st.sampled_from(ODD_VERSIONS))])
    elif v100:
        p.append(['WMTVER', '1.0.0'])
    elif ver != 'none':
        p.append(['VERSION', ver])
    rname = {'map': 'map' if v100 else 'GetMap', 'fi': 'feature_info' if v100 else 'GetFeatureInfo',
             'caps': 'capabilities' if v100 else 'GetCapabilities', 'legend': 'GetLegendGraphic'}[req]
    p.append(['REQUEST', rname])
    tag = 'wms.%s.%s' % (req, ver)
    if req == 'caps':
        if draw(st.booleans()):
            p.append(['tiled', draw(st.sampled_from(['true', 'false', 'TRUE']))])
        return path, p, tag
    if req == 'legend':
        p += _kv(('LAYER', draw(st.sampled_from(['legend', 'direct', 'grp', 'cached', 'grp_a', 'nolayer']))),
                 ('FORMAT', draw(st.sampled_from(FORMATS + ['application/json']))))
        if draw(st.booleans()):
            p.append(['SLD_VERSION', draw(st.sampled_from(['1.1.0', '1.0.0']))])
        if draw(st.booleans()):
            p.append(['SCALE', draw(st.sampled_from(['1000', '0', 'x']))])
        return path, p, tag
    layers = draw(st.lists(st.sampled_from(WMS_LAYERS), min_size=1, max_size=3))
    srs = draw(st.sampled_from(list(SRS_BBOX) * 2 + ['EPSG:4326', 'EPSG:3857', 'odd']))
    if srs == 'odd':
        srs = draw(st.sampled_from(ODD_SRS))
        bbox = '0,0,10,10'
    else:
        bbox = draw(st.sampled_from(SRS_BBOX[srs]))
        if ver == '1.3.0' and srs == 'EPSG:4326' and draw(st.booleans()):
            b = bbox.split(',')
            bbox = ','.join([b[1], b[0], b[3], b[2]])
    if draw(st.integers(0, 19)) == 0:
        bbox = draw(st.sampled_from(ODD_BBOX))
    fmt = draw(st.sampled_from(FORMATS * 5 + ODD_FORMATS))
    if v100 and draw(st.booleans()):
        fmt = fmt.split(';')[0].split('/')[-1].upper()
    size = st.one_of(*([st.sampled_from(SIZES)] * 7 + [st.sampled_from(ODD_SIZES)]))
    p += _kv(('LAYERS', ','.join(layers)), ('STYLES', draw(st.sampled_from(['', '', '', 'default', 'foo', ',,', 'inspire_common:DEFAULT']))),
             ('CRS' if ver == '1.3.0' else 'SRS', srs), ('BBOX', bbox), ('WIDTH', draw(size)), ('HEIGHT', draw(size)),
             ('FORMAT', fmt))
    if draw(st.integers(0, 2)) == 0:
        p.append(['EXCEPTIONS', draw(st.sampled_from(EXCEPTIONS))])
    if draw(st.integers(0, 3)) == 0:
        p.append(['TRANSPARENT', draw(st.sampled_from(['true', 'false', 'TRUE', 'yes', '1']))])
    if draw(st.integers(0, 4)) == 0:
        p.append(['BGCOLOR', draw(st.sampled_from(['0xffffff', '0xFF0000', '#fff', 'red', '0x', 'zzzzzz', '', '0xGGGGGG', '0xffffffff']))])
    if draw(st.integers(0, 3)) == 0:
        p.append(['TIME', draw(st.sampled_from(TIMES))])
    if draw(st.integers(0, 5)) == 0:
        p.append(['ELEVATION', draw(st.sampled_from(ELEVS))])
    if draw(st.integers(0, 7)) == 0:
        p.append(['DIM_FOO', draw(st.sampled_from(['x', '1', '']))])
    if draw(st.integers(0, 7)) == 0:
        p.append(['TILED', draw(st.sampled_from(['true', 'false']))])
    if req == 'fi':
        pos = st.sampled_from(['0', '10', '50', '50.5', '-1', '999999', '5', '1'])
        xy = ('I', 'J') if ver == '1.3.0' else ('X', 'Y')
        p += _kv(('QUERY_LAYERS', ','.join(draw(st.lists(st.sampled_from(WMS_LAYERS), min_size=1, max_size=2)))
                  if draw(st.booleans()) else ','.join(layers)),
                 (xy[0], draw(pos)), (xy[1], draw(pos)))
        if draw(st.integers(0, 4)) > 0:
            p.append(['INFO_FORMAT', draw(st.sampled_from(INFO_FORMATS))])
        if draw(st.integers(0, 4)) == 0:
            p.append(['FEATURE_COUNT', draw(st.sampled_from(['1', '10', 'abc', '0']))])
    return path, p, tag


@st.composite
def tile_addr(draw, layer):
    grid = TILE_LAYERS.get(layer, ('GLOBAL_WEBMERCATOR',))[0]
    z = draw(st.sampled_from(['0', '1', '2', '3', '5'] * 3 + ['05', '19', '20', '99', '-1']))
    try:
        n = 2 ** min(max(int(z), 0), 10)
    except ValueError:
        n = 1
    coord = st.one_of(*([st.integers(0, max(0, n - 1)).map(str)] * 5 +
                        [st.sampled_from(['-1', str(n), str(n * 2), '999999999999', '007', '-0'])]))
    return grid, z, draw(coord), draw(coord)


@st.composite
def wmts_kvp_base(draw):
    req = draw(st.sampled_from(['tile', 'tile', 'fi', 'caps']))
    path = draw(st.sampled_from(['/service', '/ows', '/service']))
    p = _kv(('SERVICE', draw(st.sampled_from(['WMTS', 'WMTS', 'wmts']))),
            ('REQUEST', {'tile': 'GetTile', 'fi': 'GetFeatureInfo', 'caps': 'GetCapabilities'}[req]))
    if draw(st.integers(0, 5)) > 0:
        p.append(['VERSION', draw(st.sampled_from(['1.0.0', '1.0.0', '1.0.0', '1.1.0', '']))])
    tag = 'wmts-kvp.' + req
    if req == 'caps':
        return path, p, tag
    layer = draw(st.sampled_from(list(TILE_LAYERS) + ['north', 'direct', 'nolayer']))
    grid, z, x, y = draw(tile_addr(layer))
    if layer == 'north' and req == 'tile' and draw(st.booleans()):
        z = str(draw(st.integers(3, 6)))       # southern rows: empty tile
        x, y = str(draw(st.integers(0, 2 ** int(z) - 2))), str(2 ** int(z) - 1 - draw(st.integers(0, 2 ** int(z) // 2 - 2)))
        tag += '.empty-tile'
    if draw(st.integers(0, 7)) == 0:
        grid = draw(st.sampled_from(GRIDS + ['nogrid']))
    fmt = draw(st.sampled_from(['image/png', 'image/jpeg', 'image/' + TILE_LAYERS.get(layer, ('', '', 'png'))[2], 'png', 'image/gif']))
    p += _kv(('LAYER', layer), ('STYLE', draw(st.sampled_from(['', 'default', 'x']))), ('TILEMATRIXSET', grid),
             ('TILEMATRIX', z), ('TILEROW', y), ('TILECOL', x), ('FORMAT', fmt))
    if draw(st.integers(0, 3)) == 0:
        p.append(['TIME', draw(st.sampled_from(TIMES))])
    if draw(st.integers(0, 4)) == 0:
        p.append(['ELEVATION', draw(st.sampled_from(ELEVS))])
    if req == 'fi':
        pos = st.sampled_from(['0', '10', '255', '256', '-1', '5.5'])
        p += _kv(('INFOFORMAT', draw(st.sampled_from(['application/json', 'text/html', 'application/gml+xml; version=3.1',
                                                      'text/plain', 'geojson', 'html', 'gml', 'nope']))),
                 ('I', draw(pos)), ('J', draw(pos)))
        if draw(st.integers(0, 4)) == 0:
            p.append(['FEATURE_COUNT', draw(st.sampled_from(['1', 'x']))])
    return path, p, tag


@st.composite
def path_base(draw):
    """tile-ish services addressed by path: (segments, params, tag)"""
    kind = draw(st.sampled_from(['tms-tile', 'tms-tile', 'tiles-tile', 'tms-caps', 'tms-caps', 'kml-tile', 'kml-init', 'kml-kml',
                                 'wmts-rest', 'wmts-rest', 'wmts-rest-fi', 'wmts-rest-caps', 'demo', 'demo', 'demo', 'demo-static',
                                 'root', 'unknown', 'empty-tile', 'empty-tile']))
    if kind == 'empty-tile':
        # a tile of the layer 'north' that lies south of its source coverage: answered with the per-layer empty tile
        z = draw(st.integers(3, 6))
        n = 2 ** z
        x, y = draw(st.integers(0, n - 2)), draw(st.integers(0, n // 2 - 2))
        svc = draw(st.sampled_from(['tms', 'tiles', 'kml', 'wmts']))
        if svc == 'wmts':
            segs = ['wmts', 'north', 'GLOBAL_MERCATOR', 'default', 'default', str(z), str(x), '%d.png' % (n - 1 - y)]
        elif svc == 'tms':
            segs = ['tms', '1.0.0', 'north', 'GLOBAL_MERCATOR', str(z), str(x), '%d.png' % y]
        else:
            segs = [svc, 'north', 'GLOBAL_MERCATOR', str(z), str(x), '%d.png' % y]
        return segs, [], 'empty-tile.' + svc
    layer = draw(st.sampled_from(list(TILE_LAYERS) * 4 + ['direct', 'nolayer', 'cached_EPSG900913']))
    grid, z, x, y = draw(tile_addr(layer))
    ext = draw(st.sampled_from([TILE_LAYERS.get(layer, ('', '', 'png'))[2]] * 9 + ['png', 'jpeg', 'jpg', 'gif', 'kml', 'PNG', 'xml']))
    p = []
    if kind in ('tms-tile', 'tiles-tile'):
        segs = ['tms' if kind == 'tms-tile' else 'tiles']
        if kind == 'tms-tile' or draw(st.booleans()):
            segs.append('1.0.0')
        segs += [layer] + ([grid] if draw(st.integers(0, 5)) > 0 else []) + [z, x, y + '.' + ext]
        if draw(st.integers(0, 3)) == 0:
            p.append(['origin', draw(st.sampled_from(['nw', 'sw', 'ne', '']))])
    elif kind == 'tms-caps':
        segs = draw(st.sampled_from([['tms'], ['tms', ''], ['tms', '1.0.0'], ['tms', '1.0.0', ''], ['tms', '1.0.0', layer],
                                     ['tms', '1.0.0', layer, grid], ['tms', '1.0.0', layer, grid, ''],
                                     ['tms', '2.0.0'], ['tms', '1.0.0', layer, grid, z]]))
    elif kind == 'kml-tile':
        segs = ['kml', layer, grid, z, x, y + '.' + ext]
    elif kind == 'kml-kml':
        segs = ['kml', layer, grid, z, x, y + '.kml']
    elif kind == 'kml-init':
        segs = draw(st.sampled_from([['kml', layer], ['kml', layer, grid], ['kml', layer, grid, ''], ['kml'], ['kml', '']]))
    elif kind == 'wmts-rest':
        segs = ['wmts', layer, grid, draw(st.sampled_from(['default'] + TIMES)), draw(st.sampled_from(['default'] + ELEVS)),
                z, x, y + '.' + ext]
    elif kind == 'wmts-rest-fi':
        pos = st.sampled_from(['0', '10', '255', '256', '-1'])
        segs = ['wmts', layer, grid, draw(st.sampled_from(['default'] + TIMES)), draw(st.sampled_from(['default'] + ELEVS)),
                z, x, y, draw(pos), draw(pos) + '.' + draw(st.sampled_from(['geojson', 'html', 'gml', 'xml', 'png']))]
    elif kind == 'wmts-rest-caps':
        segs = draw(st.sampled_from([['wmts', '1.0.0', 'WMTSCapabilities.xml'], ['wmts'], ['wmts', ''],
                                     ['wmts', 'x', '1.0.0', 'WMTSCapabilities.xml'], ['wmts', '1.0.0', 'wmtscapabilities.xml']]))
    elif kind == 'demo':
        segs = draw(st.sampled_from([['demo', ''], ['demo', ''], ['demo'], ['demo', 'x']]))
        which = draw(st.sampled_from(['index', 'wms', 'wms', 'wms', 'tms', 'tms', 'wmts', 'wmts', 'wms_capabilities', 'wmsc_capabilities',
                                      'wmts_capabilities_kvp', 'wmts_capabilities', 'tms_capabilities']))
        srs = draw(st.sampled_from(['EPSG:4326', 'EPSG:3857', 'EPSG:4326', 'EPSG:3857', 'EPSG:900913', 'EPSG:25832', 'EPSG:4258', 'x']))
        fmt = draw(st.sampled_from(['image/png', 'image/jpeg', 'png', 'jpeg']))
        if which == 'wms':
            p += _kv(('wms_layer', draw(st.sampled_from(WMS_LAYERS))), ('format', fmt), ('srs', srs))
        elif which in ('tms', 'wmts'):
            p += _kv((which + '_layer', layer), ('format', fmt), ('srs', srs))
        elif which == 'tms_capabilities':
            p.append(['tms_capabilities', ''])
            if draw(st.booleans()):
                p += _kv(('layer', layer), ('srs', draw(st.sampled_from(['EPSG900913', 'EPSG4326', grid, srs]))))
        elif which != 'index':
            p.append([which, draw(st.sampled_from(['', '1']))])
        if which.endswith('capabilities') or which.endswith('kvp'):
            if draw(st.booleans()):
                p.append(['type', draw(st.sampled_from(['external', 'external', 'internal']))])
    elif kind == 'demo-static':
        segs = ['demo', 'static'] + draw(st.sampled_from([['site.css'], ['logo.png'], ['img', 'marker.png'], ['nothing.js'], ['..', 'demo.html'],
                                                         ['ol.js'], [''], ['%2e%2e', 'wms_demo.html'], ['.', 'site.css'],
                                                         ['/etc/passwd'], ['theme', 'default', 'style.css']]))
    elif kind == 'root':
        segs = draw(st.sampled_from([[''], [], ['', '']]))
    else:
        segs = draw(st.sampled_from([['foo'], ['Service'], ['services'], ['demo2', 'x'], ['favicon.ico'], ['wms', 'tms'],
                                     ['proxy', 'service'], ['.', 'service'], ['service.php']]))
    return segs, p, kind


def enc_value(v, style):
    """percent-encode a decoded parameter value / key for the wire (no raw control characters or spaces ever)"""
    if v in RAWBYTES:
        return v
    if style == 'rawhigh':
        b = v.encode('utf-8', 'surrogatepass')
        return ''.join(chr(c) if (c > 0x7f or (0x20 < c < 0x7f and chr(c) not in '&=#%+;')) else '%%%02X' % c for c in b)
    s = quote(v, safe="/:,;*'()!~" if style == 'loose' else '', encoding='utf-8', errors='surrogatepass')
    if style == 'plus':
        s = s.replace('%20', '+')
    return s


def enc_seg(s, style):
    """one path segment for the wire; ready-made %XX escapes are kept, a '/' inside a short segment is escaped"""
    if s in RAWBYTES or re.match(r'^%[0-9a-fA-F]{2}', s):
        return s
    e = enc_value(s, 'rawhigh' if style == 'rawhigh' else 'loose')
    if '/' in s and len(s) < 50:
        e = e.replace('/', '%2F')
    return e


@st.composite
def mutated_value(draw, orig):
    kind = draw(st.sampled_from(['empty', 'huge', 'wrongtype', 'wrongtype', 'nonascii', 'rawbytes', 'control', 'control',
                                 'marker', 'marker', 'marker', 'marker']))
    if kind == 'empty':
        return kind, ''
    pool = {'huge': HUGE, 'wrongtype': WRONG, 'nonascii': NONASCII, 'rawbytes': RAWBYTES, 'control': CONTROL,
            'marker': markup.MARKERS}[kind]
    v = draw(st.sampled_from(pool))
    if kind in ('marker', 'control', 'nonascii') and draw(st.integers(0, 2)) == 0:
        v = orig + v           # a valid prefix followed by the hostile part
    return kind, v


HEADER_POOL = {
    'Host': ['example.org', 'example.org:8080', 'example.org:80', 'example.org:443', ':80', '[::1]:8080', 'a.example, b.example', '',
             'EXAMPLE.org.', 'localhost'],
    'X-Forwarded-Host': ['proxy.example', 'proxy.example:8443', 'a.example, b.example', '', ' proxy.example ', 'proxy.example/path'],
    'X-Forwarded-Proto': ['https', 'http', 'ftp', '', 'HTTPS', 'javascript'],
    'X-Script-Name': ['/proxy', '/proxy/', 'proxy', '/a%20b', '/service', '/', '', '/demo', '//evil.example', '/tms/1.0.0'],
    'If-None-Match': ['"abc"', '*', 'W/"x"', '', 'd41d8cd98f00b204e9800998ecf8427e'],
    'If-Modified-Since': ['Sat, 29 Oct 1994 19:43:31 GMT', 'garbage', 'Fri, 31 Dec 9999 23:59:59 GMT', 'Thu, 01 Jan 1960 00:00:00 GMT',
                          '', '0', 'Sat, 29 Oct 1994 19:43:31 +0200', 'Sunday, 06-Nov-94 08:49:37 GMT', 'Wed, 99 Foo 2020 99:99:99 GMT'],
    'Accept': ['image/png', '*/*', 'text/html', 'application/xml;q=0.9', ''],
    'Origin': ['http://evil.example', 'null'],
    'Referer': ['http://example.org/demo/'],
    'Cookie': ['a=b; c=d'],
    'Authorization': ['Basic !!!', 'Basic dTpw', 'Bearer x'],
    'Content-Type': ['application/x-www-form-urlencoded', 'text/xml'],
    'Accept-Encoding': ['gzip'],
    'X-Forwarded-For': ['1.2.3.4, 5.6.7.8'],
}
HEADER_HOSTILE = markup.MARKERS + ['\u00fc\u00e9', '\xff\xfe', 'a' * 3000, "'\"><", '&amp;', '%3Czq9x%3E', 'x" onload="zq9y()',
                                   "';zq9y();'", '</script><zq9x>', 'http://<zq9x>/']
KEY_HEADERS = ['Host', 'X-Forwarded-Host', 'X-Forwarded-Proto', 'X-Script-Name', 'If-None-Match', 'If-Modified-Since', 'Accept']


@st.composite
def headers_strategy(draw):
    n = draw(st.sampled_from([0, 0, 1, 1, 2, 3, 4]))
    out, tags = [], []
    for _ in range(n):
        name = draw(st.sampled_from(KEY_HEADERS + KEY_HEADERS + list(HEADER_POOL)))
        if draw(st.integers(0, 2)) == 0:
            v = draw(st.sampled_from(HEADER_HOSTILE))
            if name == 'X-Script-Name' and draw(st.booleans()):
                v = '/' + v
            tags.append('hdr-hostile:' + name.lower())
        else:
            v = draw(st.sampled_from(HEADER_POOL[name]))
            tags.append('hdr:' + name.lower())
        out.append([name, v])
    return out, tags


def cap_sizes(params):
    """harness protection: numeric WIDTH/HEIGHT values above 3000 are cut to 3000"""
    for kv in params:
        if kv[0].lower() in ('width', 'height'):
            try:
                f = float(kv[1])
            except (ValueError, OverflowError):
                continue
            if f != f or f > 3000:
                kv[1] = '3000'
    return params


@st.composite
def cases(draw):
    which = draw(st.sampled_from(['wms', 'wms', 'wms', 'wmts-kvp', 'path', 'path', 'path']))
    tags = []
    if which == 'wms':
        path, params, tag = draw(wms_base())
        segs = path.strip('/').split('/') + ([''] if path.endswith('/') else [])
    elif which == 'wmts-kvp':
        path, params, tag = draw(wmts_kvp_base())
        segs = path.strip('/').split('/')
    else:
        segs, params, tag = draw(path_base())
    tags.append('base:' + tag)
    nmut = draw(st.sampled_from([0, 0, 0, 1, 1, 1, 1, 2, 2, 3]))
    if 'empty-tile' in tag:
        nmut = draw(st.sampled_from([0, 0, 0, 0, 1]))
    for _ in range(nmut):
        target = draw(st.sampled_from(['param', 'param', 'param', 'param', 'seg', 'key', 'extra']))
        if target == 'param' and params:
            i = draw(st.integers(0, len(params) - 1))
            op = draw(st.sampled_from(['missing', 'dup-same', 'dup-other', 'value', 'value', 'value', 'value', 'case']))
            if op == 'missing':
                tags.append('mut:missing')
                del params[i]
            elif op == 'dup-same':
                tags.append('mut:duplicated')
                params.insert(draw(st.integers(0, len(params))), list(params[i]))
            elif op == 'dup-other':
                tags.append('mut:duplicated')
                k, v = draw(mutated_value(params[i][1]))
                params.insert(draw(st.integers(0, len(params))), [params[i][0], v])
            elif op == 'case':
                tags.append('mut:key-case')
                params[i][0] = draw(st.sampled_from([params[i][0].lower(), params[i][0].title(), params[i][0].swapcase()]))
            else:
                k, v = draw(mutated_value(params[i][1]))
                tags.append('mut:%s@param' % k)
                params[i][1] = v
        elif target == 'seg' and segs:
            i = draw(st.integers(0, len(segs) - 1))
            op = draw(st.sampled_from(['value', 'value', 'value', 'drop', 'double', 'dotdot']))
            if op == 'value':
                k, v = draw(mutated_value(segs[i]))
                tags.append('mut:%s@path' % k)
                segs[i] = v
            elif op == 'drop':
                tags.append('mut:missing@path')
                del segs[i]
            elif op == 'double':
                tags.append('mut:duplicated@path')
                segs.insert(i, segs[i])
            else:
                tags.append('mut:dotdot@path')
                segs.insert(i, draw(st.sampled_from(['..', '.', '%2e%2e', '%2F', '%5C'])))
        elif target == 'key' and params:
            i = draw(st.integers(0, len(params) - 1))
            k, v = draw(mutated_value(params[i][0]))
            tags.append('mut:%s@key' % k)
            params[i][0] = v
        else:
            k, v = draw(mutated_value('x'))
            tags.append('mut:%s@extra-param' % k)
            params.append([draw(st.sampled_from(['foo', 'map', 'SLD', 'SLD_BODY', 'layers', 'format', 'srs', 'wms_layer', 'type',
                                                 'origin', 'exceptions', 'info_format'])), v])
    if params and draw(st.integers(0, 4)) == 0:
        # marker sweep: exactly one parameter value replaced by (or extended with) an injection marker
        i = draw(st.integers(0, len(params) - 1))
        mk = draw(st.sampled_from(markup.MARKERS))
        params[i][1] = (params[i][1] + mk) if draw(st.integers(0, 3)) == 0 else mk
        tags.append('mut:marker-sweep@param')
        nmut += 1
    if nmut == 0:
        tags.append('mut:none')
    params = cap_sizes(params)
    style = draw(st.sampled_from(['strict', 'strict', 'loose', 'loose', 'plus', 'rawhigh']))
    sep = draw(st.sampled_from(['&', '&', '&', '&', '&&', ';']))
    parts = []
    for k, v in params:
        if v == '' and draw(st.integers(0, 3)) == 0:
            parts.append(enc_value(k, style))                # "key" without '='
        else:
            parts.append(enc_value(k, style) + '=' + enc_value(v, style))
    query = sep.join(parts)
    if draw(st.integers(0, 15)) == 0:
        query = draw(st.sampled_from(['&', '=', '?', '&=&=', '%', '%zz', '=' + enc_value(M, 'strict')])) + query
    path = ('/' + '/'.join(enc_seg(x, style) for x in segs)) if segs else ''
    headers, htags = draw(headers_strategy())
    tags += htags
    sn = [v for k, v in headers if k == 'X-Script-Name' and v.startswith('/') and len(v) > 1 and '%' not in v]
    if sn and draw(st.booleans()) and all(ord(c) < 256 for c in sn[0]):
        path = enc_value(sn[0], 'loose') + path      # front-end delivered the full path, prefix to be stripped
        tags.append('script-name-prefix-in-path')
    method = draw(st.sampled_from(['GET'] * 8 + ['POST', 'HEAD', 'OPTIONS', 'get']))
    n_up = draw(st.sampled_from([1, 1, 1, 2, 3]))
    upstream = [draw(st.sampled_from(UPSTREAM_MODES)) for _ in range(n_up)]
    fw = draw(st.integers(0, 3)) > 0
    plan = draw(st.sampled_from(['single'] * 10 + ['twice', 'twice', 'thrice', 'neighbour-after', 'neighbour-between',
                                                   'neighbour-first', 'overlap-same', 'overlap-neighbour', 'overlap-reversed',
                                                   'warm-overlap', 'warm-overlap-reversed']))
    if 'empty-tile' in tag and plan == 'single' and draw(st.integers(0, 3)) > 0:
        plan = draw(st.sampled_from([p_ for p_ in PLANS if p_ != 'single']))
    return {'plan': plan, 'method': method, 'path': path, 'query': query, 'headers': headers, 'upstream': upstream, 'fw': fw,
            'tags': tags}


# ------------------------------------------------------------------------------------------------
# check / run / replay


_OPEN = None


def open_signatures():
    """open known findings of C18, read once per process (other builders rewrite their files concurrently)"""
    global _OPEN
    if _OPEN is None and os.environ.get('C18_ASSUME_FIXED'):
        _OPEN = set()    # development aid: run against a tree with the proposed repairs applied, no exclusions
    if _OPEN is None:
        for attempt in range(5):
            try:
                _OPEN = core.open_signatures(PROPERTY)
                break
            except ValueError:
                import time
                time.sleep(0.5)
        else:
            _OPEN = core.open_signatures(PROPERTY)
    return _OPEN


def case_key(case):
    return [case.get('method', 'GET'), case['path'], case.get('query', ''), case.get('headers', []),
            case.get('upstream', ['ok']), case.get('plan') or 'single', bool(case.get('fw', True))]


def evaluate(case, stats, h=None, apply_exclusions=True):
    """Execute one case; record statistics; -> list of core.Violation (all findings of the case)."""
    h = h or harness()
    case = dict(case)
    tags = list(case.pop('tags', []) or [])
    if apply_exclusions:
        open_sigs = open_signatures()
        keys = [k for k in exclusions(case) if k in open_sigs]
        if keys:
            for k in keys:
                stats.excluded[k] += 1
            case = sanitize(case, keys)
    steps = h.execute(case)
    classes, found = [], []
    plan = case.get('plan') or 'single'
    for step in steps:
        cl = []
        f = judge(step.req, step.res, step.reached, h, cl, up=step)
        classes += cl
        for s_, msg in f:
            found.append((s_, msg + ' | ' + describe(step.req, step.res) +
                          ('' if plan == 'single' and not case.get('warmup') else
                           ' [request %d of %d, call plan %s = %s%s]' % (step.order + 1, len(steps), plan, PLANS.get(plan, 'A'),
                                                                         ', run twice' if case.get('warmup') else ''))))
        seg, rt, _, _ = request_kind(step.req)
        classes.append('handler:%s' % (step.reached[0] if step.reached else 'none(404/welcome)'))
        if step.reached:
            classes.append('req:%s.%s' % (step.reached[0], rt))
        if step.calls:
            classes.append('upstream-called')
            classes += ['upstream:' + m for m in set(case.get('upstream') or ['ok'])]
    for c in [c for c in classes if c.startswith('note:')]:
        stats.notes[c[5:]] += 1
    classes = [c for c in classes if not c.startswith('note:')]
    classes.append('plan:' + plan)
    classes.append('file_wrapper:' + ('yes' if case.get('fw', True) else 'no'))
    if h.empty_tiles[0]:
        classes.append('empty-tile-answered')
        if h.empty_tiles[0] > 1:
            classes.append('empty-tile-answered-more-than-once-in-a-case')
    if h.selffetch:
        classes.append('demo-selffetch')
    stats.extra['requests_sent'] = stats.extra.get('requests_sent', 0) + len(steps)
    stats.case(key=case_key(case), nontrivial=any(st_.reached for st_ in steps), classes=classes + tags,
               sample={k: (v if not isinstance(v, str) or len(v) < 400 else v[:400] + '...') for k, v in case.items()})
    seen, out = set(), []
    for s_, msg in found:
        if s_ not in seen:
            seen.add(s_)
            out.append(core.Violation(s_, msg, case))
    return out


def describe(case, res):
    q = case.get('query', '')
    return '%s %s%s%s -> %s' % (case.get('method', 'GET'), case['path'][:200], '?' if q else '', q[:300],
                                 res.status if res.raised is None else 'raised')


def check_case(case, stats):
    vs = evaluate(case, stats)
    if not vs:
        return None
    already = set(v.signature for v in stats.violations)
    for v in vs:
        if v.signature not in already:
            return v
    return vs[0]


def grammar_shard(shard, nshards, seed, tier):
    st_ = core.Stats()
    n = (30000 if tier == 'quick' else 1000000) // nshards
    try:
        core.hyp_search(cases(), check_case, st_, max_examples=n, seed=seed, max_signatures=3)
    finally:
        close_harness()
    standalone_violations(st_)
    return st_


#: forms in which a violation found on a long-lived application is re-tried on a fresh one: as found; the call plan
#: run twice; run twice through wsgi.file_wrapper (responses closed by the server); the request overlapping itself
STANDALONE_VARIANTS = ({}, {'warmup': True}, {'warmup': True, 'fw': True}, {'warmup': True, 'fw': False, 'plan': 'overlap-same'})


def standalone_violations(st_):
    """The application object lives for a whole shard, so an answer can depend on requests of earlier cases (memoised
    objects).  Every violation found is therefore re-executed on a fresh application; when it does not reproduce
    there, the forms of STANDALONE_VARIANTS are tried, and the reported (replayable) case is the form that
    reproduces stand-alone.  A violation that reproduces in neither form is still reported, and says so."""
    for v in st_.violations:
        for variant in STANDALONE_VARIANTS:
            case = dict(v.case, **variant)
            try:
                vs = evaluate(case, core.Stats(), apply_exclusions=False)
            finally:
                close_harness()
            hit = [x for x in vs if x.signature == v.signature]
            if hit:
                v.case, v.message = hit[0].case, hit[0].message
                break
        else:
            st_.notes['violation depends on requests of earlier cases (not reproduced stand-alone)'] += 1
            v.message += ' [found with an application that had served earlier cases; not reproduced stand-alone]'


def run(tier, seed, stats):
    stats.merge(core.parallel(grammar_shard, 16, seed, tier))
    if tier == 'thorough':
        fuzz_campaign(seed, stats)
    else:
        stats.notes['atheris-campaign: thorough tier only'] += 1


def replay(case, stats):
    try:
        return evaluate(case, stats, apply_exclusions=False)
    finally:
        close_harness()


# ------------------------------------------------------------------------------------------------
# generator (b): atheris coverage-guided campaign on (path, query, headers) bytes  (thorough tier)
#
# Input format (bytes, decoded latin-1 per PEP 3333):   <path>?<query> \n Header-Name: value \n ... \n !mode,mode
# The target normalises what no gateway would deliver (raw control characters / spaces in the query string are
# percent-encoded, control characters in header values dropped, header names restricted to token characters),
# skips inputs with WIDTH/HEIGHT above 3000 px and applies the same known-finding exclusions as the grammar.

FUZZ_DICT = ['SERVICE=WMS', 'SERVICE=WMTS', 'REQUEST=GetMap', 'REQUEST=GetFeatureInfo', 'REQUEST=GetCapabilities',
             'REQUEST=GetLegendGraphic', 'REQUEST=GetTile', 'REQUEST=map', 'REQUEST=capabilities', 'REQUEST=feature_info',
             'VERSION=1.1.1', 'VERSION=1.3.0', 'VERSION=1.1.0', 'VERSION=1.0.0', 'WMTVER=1.0.0', 'LAYERS=', 'LAYER=', 'STYLES=',
             'STYLE=', 'SRS=EPSG:4326', 'CRS=EPSG:4326', 'SRS=EPSG:3857', 'SRS=EPSG:25832', 'BBOX=0,0,10,10', 'WIDTH=64', 'HEIGHT=64',
             'FORMAT=image/png', 'FORMAT=image/jpeg', 'FORMAT=image/gif', 'FORMAT=image/tiff', 'TRANSPARENT=true',
             'BGCOLOR=0xff00ff', 'EXCEPTIONS=inimage', 'EXCEPTIONS=blank', 'EXCEPTIONS=application/vnd.ogc.se_xml', 'TIME=2020-01-01',
             'ELEVATION=1000', 'DIM_FOO=1', 'TILED=true', 'QUERY_LAYERS=', 'X=1', 'Y=1', 'I=1', 'J=1', 'INFO_FORMAT=text/xml',
             'INFO_FORMAT=text/html', 'INFO_FORMAT=application/json', 'INFOFORMAT=application/json', 'FEATURE_COUNT=1',
             'TILEMATRIXSET=GLOBAL_WEBMERCATOR', 'TILEMATRIXSET=small', 'TILEMATRIX=0', 'TILEROW=0', 'TILECOL=0', 'SLD_VERSION=1.1.0',
             'SCALE=1000', 'origin=nw', 'wms_layer=', 'tms_layer=', 'wmts_layer=', 'wms_capabilities', 'wmsc_capabilities',
             'wmts_capabilities_kvp', 'wmts_capabilities', 'tms_capabilities', 'type=external', 'srs=', 'format=',
             '/service', '/ows', '/wms', '/wmts/', '/tms/1.0.0/', '/tiles/', '/kml/', '/demo/', '/demo/static/', '/1.0.0/WMTSCapabilities.xml',
             'GLOBAL_WEBMERCATOR', 'GLOBAL_GEODETIC', 'GLOBAL_MERCATOR', 'small', 'default', '/0/0/0.png', '/1/0/0.jpeg', '.kml',
             '.geojson', '.html', '.gml', 'X-Forwarded-Host: ', 'X-Forwarded-Proto: ', 'X-Script-Name: /', 'Host: ',
             'If-None-Match: ', 'If-Modified-Since: ', 'Accept: ', '\n', '&', '=', '%00', '%0d%0a', '%3C', '%22', '%26', '%27', '%FF',
             '!ok', '!noconn', '!text', '!garbage', '!http500', '!xmlexc', '!truncated', '#nofw'] + ['#' + p_ for p_ in PLANS] + WMS_LAYERS + \
            [quote(m_, safe='') for m_ in markup.MARKERS] + markup.MARKERS

FUZZ_SEEDS = [
    '/service?SERVICE=WMS&VERSION=1.1.1&REQUEST=GetMap&LAYERS=direct&STYLES=&SRS=EPSG:4326&BBOX=0,0,10,10&WIDTH=64&HEIGHT=64&FORMAT=image/png',
    '/service?SERVICE=WMS&VERSION=1.3.0&REQUEST=GetMap&LAYERS=cached,dims&STYLES=&CRS=EPSG:3857&BBOX=0,0,1000000,1000000&WIDTH=64&HEIGHT=64&FORMAT=image/jpeg&EXCEPTIONS=inimage&TIME=2020-01-01\nX-Forwarded-Host: proxy.example\n!ok,noconn',
    '/service?SERVICE=WMS&VERSION=1.1.1&REQUEST=GetFeatureInfo&LAYERS=direct&QUERY_LAYERS=direct&STYLES=&SRS=EPSG:4326&BBOX=0,0,10,10&WIDTH=64&HEIGHT=64&FORMAT=image/png&X=1&Y=1&INFO_FORMAT=text/xml',
    '/service?SERVICE=WMS&REQUEST=GetCapabilities\nX-Forwarded-Proto: https\nX-Script-Name: /proxy',
    '/service?WMTVER=1.0.0&REQUEST=capabilities', '/service?SERVICE=WMS&VERSION=1.1.1&REQUEST=GetLegendGraphic&LAYER=direct&FORMAT=image/png',
    '/service?SERVICE=WMTS&REQUEST=GetTile&VERSION=1.0.0&LAYER=cached&STYLE=&TILEMATRIXSET=GLOBAL_WEBMERCATOR&TILEMATRIX=1&TILEROW=0&TILECOL=0&FORMAT=image/png',
    '/service?SERVICE=WMTS&REQUEST=GetFeatureInfo&VERSION=1.0.0&LAYER=cached&STYLE=&TILEMATRIXSET=GLOBAL_WEBMERCATOR&TILEMATRIX=1&TILEROW=0&TILECOL=0&FORMAT=image/png&INFOFORMAT=application/json&I=1&J=1',
    '/wmts/1.0.0/WMTSCapabilities.xml', '/wmts/dims/GLOBAL_WEBMERCATOR/2020-01-01/0/1/0/0.png', '/wmts/cached/GLOBAL_WEBMERCATOR/default/default/1/0/0/5/5.geojson',
    '/tms/1.0.0/', '/tms/1.0.0/cached/GLOBAL_WEBMERCATOR', '/tms/1.0.0/geo/GLOBAL_GEODETIC/1/0/0.jpeg\nIf-None-Match: x', '/tiles/tiled/GLOBAL_MERCATOR/1/0/0.png?origin=nw\n!garbage',
    '/kml/cached/GLOBAL_WEBMERCATOR', '/kml/cached/GLOBAL_WEBMERCATOR/1/0/0.kml', '/kml/grp_b/small/0/0/0.png',
    '/tms/1.0.0/north/GLOBAL_MERCATOR/4/0/0.png\n#twice', '/wmts/north/GLOBAL_MERCATOR/default/default/4/0/15.png\n#overlap-neighbour\n#nofw',
    '/demo/', '/demo/?wms_layer=direct&srs=EPSG:4326&format=image/png', '/demo/?tms_layer=cached&srs=EPSG:3857&format=png',
    '/demo/?wmts_layer=cached&srs=EPSG:3857&format=png', '/demo/?wms_capabilities&type=external\nX-Forwarded-Host: a.example',
    '/demo/?tms_capabilities&layer=cached&srs=EPSG900913', '/demo/static/site.css', '/', '/nothing',
]


def fuzz_input_to_case(data):
    text = data.decode('latin-1')
    lines = text.split('\n')
    url = lines[0]
    path, _, query = url.partition('?')
    query = re.sub(r'[\x00-\x20\x7f]', lambda m_: '%%%02X' % ord(m_.group(0)), query)
    path = re.sub(r'[\x00-\x20\x7f?#]', lambda m_: '%%%02X' % ord(m_.group(0)), path)
    if not path.startswith('/'):
        path = '/' + path
    headers, upstream, plan, fw = [], ['ok'], 'single', True
    for ln in lines[1:8]:
        if ln.startswith('#'):
            if ln[1:] in PLANS:
                plan = ln[1:]
            elif ln[1:] == 'nofw':
                fw = False
            continue
        if ln.startswith('!'):
            ms = [x for x in ln[1:].split(',') if x in UPSTREAM_MODES]
            if ms:
                upstream = ms[:3]
            continue
        name, sep, value = ln.partition(':')
        if not sep or not re.match(r'^[A-Za-z][A-Za-z0-9-]{0,40}$', name):
            continue
        if name.lower() in ('content-length', 'transfer-encoding'):
            continue
        headers.append([name, re.sub(r'[\x00-\x1f\x7f]', '', value).strip()])
    return {'plan': plan, 'method': 'GET', 'path': path, 'query': query, 'headers': headers, 'upstream': upstream, 'fw': fw}


def fuzz_oversized(case):
    for k, vs in decoded_args(case['query']).items():
        if k in ('width', 'height'):
            for v in vs + [','.join(vs)]:
                try:
                    f = float(v)
                except (ValueError, OverflowError):
                    continue
                if f != f or f > 3000:
                    return True
    return False


def fuzz_main(argv):
    """child process: python -m vcheck.props.c18_wellformed --fuzz <workdir> <index> <libfuzzer args...>"""
    import pickle
    workdir, index = argv[0], int(argv[1])
    try:
        import atheris
    except Exception as e:     # noqa - reported to the parent through the exit code
        print('ATHERIS-UNAVAILABLE %r' % (e,))
        sys.exit(3)
    with atheris.instrument_imports(include=['mapproxy'], enable_loader_override=False):
        h = harness(parent=workdir)     # inside the campaign directory, which the parent process removes
    st_ = core.Stats()
    crash_dir = os.path.join(workdir, 'crashes')
    os.makedirs(crash_dir, exist_ok=True)
    seen = set()
    state = {'n': 0}

    def dump():
        tmp = os.path.join(workdir, 'stats_%d.pkl.tmp' % index)
        with open(tmp, 'wb') as f:
            pickle.dump(st_, f)
        os.replace(tmp, os.path.join(workdir, 'stats_%d.pkl' % index))

    def one_input(data):
        state['n'] += 1
        if len(data) > 4096:
            return
        case = fuzz_input_to_case(data)
        if fuzz_oversized(case):
            st_.excluded['atheris-input-over-3000px'] += 1
            return
        case['tags'] = ['atheris']
        for v in evaluate(case, st_, h):
            if v.signature not in seen:
                seen.add(v.signature)
                with open(os.path.join(crash_dir, '%d-%s.json' % (index, core.case_hash(v.signature))), 'w') as f:
                    json.dump(v.as_dict(), f)
        if state['n'] % 500 == 0:
            dump()

    import atexit
    atexit.register(dump)
    atexit.register(close_harness)
    atheris.Setup([sys.argv[0]] + list(argv[2:]), one_input)
    atheris.Fuzz()


def fuzz_campaign(seed, stats, workers=None, runs=None):
    import pickle
    workers = workers or min(14, int(os.environ.get('VERIF_PROCS', '16')))
    runs = runs or int(os.environ.get('C18_FUZZ_RUNS', '60000'))
    from .. import VERIF_DIR
    deps = os.path.join(VERIF_DIR, '.deps')
    work = tempfile.mkdtemp(prefix='c18-fuzz-')
    try:
        with open(os.path.join(work, 'dict.txt'), 'w') as f:
            for i, tok in enumerate(FUZZ_DICT):
                if tok:
                    f.write('kw%d="%s"\n' % (i, ''.join(c if (32 <= ord(c) < 127 and c not in '"\\') else '\\x%02x' % ord(c)
                                                       for c in tok.encode('utf-8').decode('latin-1'))))
        procs = []
        for i in range(workers):
            corpus = os.path.join(work, 'corpus_%d' % i)
            os.makedirs(corpus)
            if i % 2 == 0:      # even workers: seeded corpus, odd workers: empty corpus (dictionary only)
                for j, s in enumerate(FUZZ_SEEDS):
                    with open(os.path.join(corpus, 'seed_%d' % j), 'wb') as f:
                        f.write(s.encode('latin-1'))
            env = dict(os.environ)
            env['PYTHONPATH'] = os.pathsep.join([deps, VERIF_DIR] + ([env['PYTHONPATH']] if env.get('PYTHONPATH') else []))
            env['PYTHONHASHSEED'] = '0'
            cmd = [sys.executable, '-m', 'vcheck.props.c18_wellformed', '--fuzz', work, str(i),
                   '-seed=%d' % (core.derive_seed(seed, 'atheris', i) % (2 ** 31 - 1) + 1), '-runs=%d' % runs, '-max_len=2048',
                   '-dict=' + os.path.join(work, 'dict.txt'), '-timeout=120', '-rss_limit_mb=4096', '-print_final_stats=1',
                   '-artifact_prefix=' + os.path.join(work, 'artifact_%d_' % i), corpus]
            log = open(os.path.join(work, 'log_%d.txt' % i), 'wb')
            procs.append((subprocess.Popen(cmd, cwd=VERIF_DIR, env=env, stdout=log, stderr=subprocess.STDOUT), log, i))
        unavailable = False
        for p, log, i in procs:
            rc = p.wait()
            log.close()
            with open(os.path.join(work, 'log_%d.txt' % i), 'rb') as f:
                tail = f.read()[-3000:].decode('latin-1')
            if rc == 3 and 'ATHERIS-UNAVAILABLE' in tail:
                unavailable = True
                continue
            if rc != 0:
                # libFuzzer-level crash / timeout / OOM of the harness process: not a verdict about the property
                stats.inconclusive['atheris-worker-exit-%d' % rc] += 1
                stats.extra.setdefault('atheris_worker_log_tails', []).append(tail[-600:])
            m_ = re.search(r'stat::number_of_executed_units:\s*(\d+)', tail)
            if m_:
                stats.extra['atheris_executions'] = stats.extra.get('atheris_executions', 0) + int(m_.group(1))
            sp = os.path.join(work, 'stats_%d.pkl' % i)
            if os.path.exists(sp):
                with open(sp, 'rb') as f:
                    stats.merge(pickle.load(f))
        if unavailable:
            stats.notes['atheris not importable (PYTHONPATH=/verif/.deps): byte campaign skipped'] += 1
            return
        stats.notes['atheris-campaign: %d workers x %d runs' % (workers, runs)] += 1
        # saved crashing inputs -> confirmed by deterministic re-execution in this process -> replay files
        cdir = os.path.join(work, 'crashes')
        done = set()
        try:
            for name in sorted(os.listdir(cdir)) if os.path.isdir(cdir) else []:
                with open(os.path.join(cdir, name)) as f:
                    rec = json.load(f)
                if rec['signature'] in done:
                    continue
                hit = []
                for variant in STANDALONE_VARIANTS:      # fresh application; then the call plan run twice, ...
                    close_harness()
                    vs = evaluate(dict(rec['case'], **variant), core.Stats(), apply_exclusions=False)
                    hit = [v for v in vs if v.signature == rec['signature']] or vs
                    if hit:
                        break
                if hit:
                    done.add(rec['signature'])
                    stats.violations.append(hit[0])
                else:
                    stats.inconclusive['atheris-finding-not-reproduced'] += 1
        finally:
            close_harness()
    finally:
        shutil.rmtree(work, ignore_errors=True)


if __name__ == '__main__':
    if len(sys.argv) > 2 and sys.argv[1] == '--fuzz':
        fuzz_main(sys.argv[2:])
