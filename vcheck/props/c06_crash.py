"""C06 - A crash while storing never leaves a corrupt or foreign tile visible.

One generated store runs on a real scratch directory (prior contents from a short generated
history) under the raw file-system recorder (fsrec.py).  Every prefix of the recorded operation
list - plus every cut of a write at a 4096-byte file-offset boundary - is re-materialised from the
pre-state snapshot and read back through a FRESH cache object.  See DESIGN.md section 7.
"""
import gc
import hashlib
import io
import json
import os
import random
import shutil
import subprocess
import sys
import tempfile

from hypothesis import strategies as st

from .. import core
from .. import fsrec

PROPERTY = 'C06'
LEVEL = 'fault_enumeration'
RULE = ('Hypothesis-generated cases = (backend configuration, short prior history of stores/removes, ONE store '
        'under test): file cache (6 directory layouts, link_single_color_images off/symlink/hardlink, dimensions, '
        'optional file/directory permissions), compact v1 / v2 (store_tile, store_tiles within one bundle and across '
        'bundles, remove_tile; tile positions include the 16 v1 index entries that straddle a 4096-byte boundary; '
        'record sizes 150 B..20 kB), LegendCache.store, seed ProgressStore.write.  The store under test is recorded '
        'at the raw write(2)/rename/unlink/... layer; EVERY prefix of the op list and every cut of a write at a '
        '4096-byte file-offset boundary is materialised from the pre-state snapshot and read back by a fresh cache '
        'object (each address in {old bytes, new bytes}, missing only where the property allows it, other addresses '
        'unchanged, no exception).  Then, on copies of that crashed directory, a restarted process (fresh object) '
        '(a) stores a DIFFERENT address of the same bundle / directory, (b) overwrites a prior address that is not '
        'part of the store (compact: preferably in a bundle the store writes to), (a2) stores different, clearly '
        'smaller / clearly larger content to the SAME addresses (also legend and progress file) - everything that was '
        'visible right after the crash must read the same afterwards, the follow-up addresses exactly their new bytes - and (c) repeats the '
        'same store (must succeed despite stale lock / temp files and yield the new content).  Continuations run on '
        'every crash state ((b) and the larger variant on every second crash index; counted in notes).  One evaluation = one crash state.  A crash state is '
        'non-trivial when the crash index lies strictly inside the op list (or is a torn write) of a case whose '
        'store overwrites existing content or writes into an already existing bundle; distinct = distinct '
        '(case, crash index, cut).  Byte-granular cuts are explored too (every 4th case) but only counted (beyond-model notes).')
ASSUMPTIONS = [
    'crash model = process death: completed syscalls persist in order, no reordering, all descriptors closed; the '
    'syscall in flight is absent or, for write, applied up to a 4096-byte file-offset boundary',
    'power loss / reordering of unsynced writes is out of scope (no fsync anywhere in the code under test)',
    'a dead process holds no flock: a stale .lck file is just a file (the re-materialised directory has no lock holder)',
    '"new bytes" of an address = what a fresh cache object reads after the un-crashed store (so documented sharing of '
    'single-colour tiles is not counted as foreign content)',
    'one writer at a time (crash safety under concurrent writers belongs to C07/C08)',
    'recorder completeness: the replay of the full op list must reproduce the directory the real store left behind '
    '(checked on every case); thorough tier also compares the op list with strace of the same store in a subprocess',
    'quadkey/arcgis layouts are used without dimensions (their dimension handling is the C05 finding, not a crash matter)',
]

OPEN = None  # open known-finding signatures, loaded lazily

SIG_REGULAR_TO_LINK = 'C06/file/regular-replaced-by-link/missing'
SIG_V1_TORN_ENTRY = 'C06/compact1/torn-index-entry-across-page'
_UNREADABLE = object()


def open_sigs():
    global OPEN
    if OPEN is None:
        OPEN = core.open_signatures(PROPERTY)
        # test knob for verifying a proposed repair on a scratch copy: signatures listed here are not tolerated
        OPEN -= set(filter(None, os.environ.get('VERIF_C06_TREAT_FIXED', '').split(',')))
    return OPEN


# ------------------------------------------------------------------------------------------------
# payloads

_PNG = {}
COLORS = [(255, 0, 0), (0, 0, 0), (12, 200, 77)]


def _png(color):
    if color not in _PNG:
        from PIL import Image
        if color == 'tiny':
            img = Image.new('1', (2, 1))
            img.putpixel((1, 0), 1)
        elif color is None:
            img = Image.new('RGB', (8, 8), (1, 2, 3))
            img.putpixel((3, 4), (200, 100, 50))
            img.putpixel((0, 7), (9, 9, 9))
        else:
            img = Image.new('RGB', (8, 8), COLORS[color])
        buf = io.BytesIO()
        img.save(buf, 'png')
        _PNG[color] = buf.getvalue()
    return _PNG[color]


def payload(img):
    """valid PNG (single colour `color` index or a pattern) + unique tag + deterministic filler up to `size`;
    'tiny': the smallest payload (2x1 two-colour PNG + short tag), smaller than every other one"""
    if img.get('tiny'):
        return _png('tiny') + b'|t%d|' % img['tag']
    head = _png(img.get('color')) + b'|TAG%08d|' % img['tag']
    n = max(0, img.get('size', 0) - len(head))
    if n:
        head += hashlib.shake_128(b'%d' % img['tag']).digest(n)
    return head


SIZES = [150, 150, 300, 3000, 4050, 4200, 5000, 8200, 9000, 13000, 20000]

# ------------------------------------------------------------------------------------------------
# address pools

FILE_COORDS = [(0, 0, 0), (0, 0, 1), (1, 0, 1), (0, 1, 1), (1, 1, 1), (2, 3, 2), (3, 1, 2), (5, 6, 3), (7, 7, 3)]
DIMS = [None, {'time': 't1'}, {'time': 't2'}, {'time': 't1', 'dim_level': '7'}]
LAYOUTS_DIM = ['tc', 'mp', 'tms', 'reverse_tms']
LAYOUTS_NODIM = ['quadkey', 'arcgis']

# v1 index entries (5 bytes at 16 + 5k, k = x*128 + y) that straddle a 4096-byte boundary
V1_STRADDLE = [(k // 128, k % 128) for k in range(16384) if (16 + 5 * k) // 4096 != (16 + 5 * k + 4) // 4096]
_xy = [(0, 0), (1, 0), (0, 1), (127, 127), (5, 9), (64, 64), V1_STRADDLE[0], V1_STRADDLE[1], V1_STRADDLE[5],
       (12, 98), (12, 100)]
COMPACT_COORDS = ([(x, y, 2) for x, y in _xy] +
                  [(x + 128, y, 2) for x, y in [(0, 0), (2, 5), V1_STRADDLE[0], V1_STRADDLE[7]]] +
                  [(x, y + 128, 2) for x, y in [(1, 1), V1_STRADDLE[2]]] +
                  [(x, y, 7) for x, y in [(0, 0), (3, 3), V1_STRADDLE[0]]])

LEGEND_IDS = [('http://a/legend?', 10), ('http://a/legend?', 25), ('http://b/?layer', 10), ('x', 1)]

# ------------------------------------------------------------------------------------------------
# generators


@st.composite
def _tile_ops(draw, coords, n_dims, backend, link):
    """history + store under test for the tile backends"""
    def image():
        if backend == 'file' and link != 'none':
            color = draw(st.sampled_from([None, 0, 0, 1, 2]))
        else:
            color = draw(st.sampled_from([None, None, None, 0]))
        return {'color': color, 'size': draw(st.sampled_from(SIZES))}

    stored = []  # (coordinate index, dim) written by the history so far: biases the store under test to hit them

    def op(under_test):
        kinds = ['store', 'store', 'store_tiles', 'store_tiles', 'remove'] if under_test else \
            ['store', 'store_tiles', 'store_tiles', 'store_tiles', 'remove']
        kind = draw(st.sampled_from(kinds))
        dim = draw(st.integers(0, n_dims - 1)) if n_dims > 1 else 0
        first = None
        if under_test and stored and draw(st.integers(0, 3)) > 0:
            first, dim = draw(st.sampled_from(stored))
        if kind == 'store_tiles':
            idx = draw(st.lists(st.integers(0, len(coords) - 1), min_size=2, max_size=5, unique=True))
        else:
            idx = [draw(st.integers(0, len(coords) - 1))]
        if first is not None and first not in idx:
            idx[0] = first
        if kind != 'remove':
            stored.extend((i, dim) for i in idx)
        o = {'kind': kind, 'dim': dim,
             'tiles': [{'coord': list(coords[i]), 'img': image() if kind != 'remove' else None} for i in idx]}
        return o

    history = [op(False) for _ in range(draw(st.integers(0, 4)))]
    store = op(True)
    return history, store


@st.composite
def cases(draw):
    backend = draw(st.sampled_from(['file'] * 5 + ['compact1'] * 4 + ['compact2'] * 4 + ['legend', 'progress']))
    case = {'backend': backend, 'cfg': {}, 'crash': None}
    perms = draw(st.sampled_from([None, None, ['775', '664']]))
    if backend == 'file':
        link = draw(st.sampled_from(['none', 'symlink', 'hardlink']))
        use_dims = draw(st.booleans())
        layout = draw(st.sampled_from(LAYOUTS_DIM if use_dims else LAYOUTS_DIM + LAYOUTS_NODIM))
        case['cfg'] = {'layout': layout, 'link': link, 'perms': perms}
        case['history'], case['store'] = draw(_tile_ops(FILE_COORDS, len(DIMS) if use_dims else 1, backend, link))
    elif backend in ('compact1', 'compact2'):
        case['cfg'] = {'perms': perms}
        # a sub-pool keeps collisions (overwrites, shared bundles) frequent
        pool = draw(st.lists(st.sampled_from(COMPACT_COORDS), min_size=3, max_size=8, unique=True))
        case['history'], case['store'] = draw(_tile_ops(pool, 1, backend, 'none'))
    elif backend == 'legend':
        case['cfg'] = {'perms': perms}

        def lop():
            return {'kind': 'store', 'legend': draw(st.integers(0, len(LEGEND_IDS) - 1)),
                    'img': {'color': None, 'size': draw(st.sampled_from(SIZES))}}
        case['history'] = [lop() for _ in range(draw(st.integers(0, 3)))]
        case['store'] = lop()
    else:
        def pop():
            n = draw(st.sampled_from([1, 2, 5, 60, 400]))
            return {'kind': 'write', 'tasks': n, 'salt': draw(st.integers(0, 5))}
        case['history'] = [pop() for _ in range(draw(st.integers(0, 2)))]
        case['store'] = pop()
    _assign_tags(case)
    return case


def _assign_tags(case):
    tag = 1
    for o in case['history'] + [case['store']]:
        for t in o.get('tiles') or []:
            if t.get('img') is not None:
                t['img']['tag'] = tag
                tag += 1
        if o.get('img') is not None:
            o['img']['tag'] = tag
            tag += 1
        if o['kind'] == 'write':
            o['tag'] = tag
            tag += 1


# ------------------------------------------------------------------------------------------------
# backends


class TileBackend(object):
    def __init__(self, case):
        self.case = case
        self.kind = case['backend']
        self.cfg = case['cfg']
        self.dims = self.kind == 'file'

    def make(self, root):
        perms = self.cfg.get('perms') or [None, None]
        if self.kind == 'file':
            from mapproxy.cache.file import FileCache
            link = self.cfg['link']
            return FileCache(os.path.join(root, 'c'), 'png', directory_layout=self.cfg['layout'],
                             link_single_color_images=False if link == 'none' else link,
                             directory_permissions=perms[0], file_permissions=perms[1])
        from mapproxy.cache import compact
        cls = compact.CompactCacheV1 if self.kind == 'compact1' else compact.CompactCacheV2
        return cls(os.path.join(root, 'c'), directory_permissions=perms[0], file_permissions=perms[1])

    def _dim(self, op):
        return DIMS[op['dim']] if self.dims else None

    def apply(self, cache, op):
        from mapproxy.cache.tile import Tile
        from mapproxy.image import ImageSource
        tiles = []
        for t in op['tiles']:
            src = ImageSource(io.BytesIO(payload(t['img']))) if t['img'] is not None else None
            tiles.append(Tile(tuple(t['coord']), src))
        kw = {'dimensions': self._dim(op)} if self.dims else {}
        if op['kind'] == 'store':
            cache.store_tile(tiles[0], **kw)
        elif op['kind'] == 'store_tiles':
            cache.store_tiles(tiles, **kw)
        else:
            for t in tiles:
                cache.remove_tile(t, **kw)

    def op_addresses(self, op):
        return [(tuple(t['coord']), op['dim'] if self.dims else 0) for t in op['tiles']]

    def _bundle_key(self, coord):
        x, y, z = coord
        return (x // 128, y // 128, z) if self.kind != 'file' else None

    def followups(self):
        """stores a restarted process may do next on the crashed directory (post-crash continuation):
        'neighbour' = a DIFFERENT address in the same bundle / directory as the first batch tile,
        'prior-overwrite' = overwrite of a prior address that is not part of the store under test
        (compact: preferably one in a bundle the store under test writes to).  [(variant, op, address)]"""
        store = self.case['store']
        batch = set(self.op_addresses(store))
        d = store['dim'] if self.dims else 0
        x, y, z = store['tiles'][0]['coord']
        cands = [(x ^ 1, y, z), (x, y ^ 1, z), (x ^ 1, y ^ 1, z)]
        if self.kind == 'file':
            cands = [c for c in cands if c[0] < 2 ** z and c[1] < 2 ** z] + [(0, 0, 1), (1, 1, 1), (0, 1, 1)]
        out = []
        for c in cands:
            if (c, d) not in batch:
                out.append(('neighbour', {'kind': 'store', 'dim': d, 'tiles': [
                    {'coord': list(c), 'img': {'color': None, 'size': 700, 'tag': 900001}}]}, (c, d)))
                break
        taken = set(a for _, _, a in out)
        prior = []
        for o in self.case['history']:
            if o['kind'] != 'remove':
                prior.extend(a for a in self.op_addresses(o) if a not in batch and a not in taken and a not in prior)
        if prior:
            bkeys = set(self._bundle_key(c) for c, _ in batch)
            same = [a for a in prior if self.kind != 'file' and self._bundle_key(a[0]) in bkeys]
            a = (same or prior)[0]
            out.append(('prior-overwrite', {'kind': 'store', 'dim': a[1], 'tiles': [
                {'coord': list(a[0]), 'img': {'color': None, 'size': 0, 'tag': 900002}}]}, a))
        # the SAME addresses again with different content of a clearly smaller / larger size (a temp file or
        # record left behind by the crashed store must not leak into what gets published now)
        for variant, img in (('same-address-smaller', {'tiny': True}), ('same-address-larger', {'color': None, 'size': 24000})):
            tiles = []
            for i, t in enumerate(store['tiles']):
                im = dict(img)
                im['tag'] = (900100 if 'tiny' in img else 900200) + i
                tiles.append({'coord': list(t['coord']), 'img': im})
            out.append((variant, {'kind': 'store' if len(tiles) == 1 else 'store_tiles', 'dim': d, 'tiles': tiles},
                        self.op_addresses(store)[0]))
        return out

    def expected(self, op):
        """address -> bytes a follow-up store must make readable (follow-ups use pattern images: never linked)"""
        return dict(((tuple(t['coord']), op['dim'] if self.dims else 0), payload(t['img'])) for t in op['tiles'])

    def addresses(self):
        """prior + batch + follow-up addresses + sampled others (east neighbour of each batch tile; same tile,
        next dimension)"""
        out = []
        for o in self.case['history'] + [self.case['store']]:
            out.extend(self.op_addresses(o))
        out.extend(a for _, _, a in self.followups())
        for (x, y, z), d in self.op_addresses(self.case['store']):
            if self.kind == 'file':
                if (x + 1) < 2 ** z:
                    out.append(((x + 1, y, z), d))
                if self.cfg['layout'] in LAYOUTS_DIM:
                    out.append(((x, y, z), (d + 1) % len(DIMS)))
            else:
                out.append(((x + 1, y, z), d))
        seen, res = set(), []
        for a in out:
            if a not in seen:
                seen.add(a)
                res.append(a)
        return res

    def read(self, cache, addr):
        from mapproxy.cache.tile import Tile
        coord, d = addr
        t = Tile(tuple(coord))
        kw = {'dimensions': DIMS[d]} if self.dims else {}
        if not cache.load_tile(t, **kw):
            return None
        if t.source is None:
            raise AssertionError('load_tile returned True without a source')
        buf = t.source.as_buffer()
        try:
            return buf.read()
        finally:
            t.source.close_buffers()

    def representation(self, cache, addr):
        """how the address is materialised on disk (file cache only): none/regular/link/hardlink"""
        if self.kind != 'file':
            return None
        from mapproxy.cache.tile import Tile
        coord, d = addr
        loc = cache.tile_location(Tile(tuple(coord)), dimensions=DIMS[d])
        try:
            s = os.lstat(loc)
        except OSError:
            return 'none'
        import stat as _stat
        if _stat.S_ISLNK(s.st_mode):
            return 'link'
        return 'hardlink' if s.st_nlink > 1 else 'regular'

    def shares_existing(self, root):
        """compact: the store under test writes into a bundle file that already exists"""
        if self.kind == 'file':
            return False
        cache = self.make(root)
        for t in self.case['store']['tiles']:
            base = cache._get_bundle_fname_and_offset(tuple(t['coord']))[0]
            if os.path.exists(base + '.bundle'):
                return True
        return False


class LegendBackend(object):
    kind = 'legend'
    dims = False

    def followups(self):
        leg = self.case['store']['legend']
        return [('same-address-smaller', {'kind': 'store', 'legend': leg, 'img': {'tiny': True, 'tag': 900100}}, leg),
                ('same-address-larger', {'kind': 'store', 'legend': leg,
                                         'img': {'color': None, 'size': 24000, 'tag': 900200}}, leg)]

    def expected(self, op):
        return {op['legend']: payload(op['img'])}

    def __init__(self, case):
        self.case = case
        self.cfg = case['cfg']

    def make(self, root):
        from mapproxy.cache.legend import LegendCache
        perms = self.cfg.get('perms') or [None, None]
        return LegendCache(os.path.join(root, 'c', 'legends'), 'png', directory_permissions=perms[0],
                           file_permissions=perms[1])

    def apply(self, cache, op):
        from mapproxy.cache.legend import Legend
        from mapproxy.image import ImageSource
        lid, scale = LEGEND_IDS[op['legend']]
        cache.store(Legend(source=ImageSource(io.BytesIO(payload(op['img']))), id=lid, scale=scale))

    def op_addresses(self, op):
        return [op['legend']]

    def addresses(self):
        return list(range(len(LEGEND_IDS)))

    def read(self, cache, addr):
        from mapproxy.cache.legend import Legend
        lid, scale = LEGEND_IDS[addr]
        leg = Legend(id=lid, scale=scale)
        if not cache.load(leg):
            return None
        buf = leg.source.as_buffer()
        try:
            return buf.read()
        finally:
            leg.source.close_buffers()

    def representation(self, cache, addr):
        return None

    def shares_existing(self, root):
        return False


def _progress_status(op):
    rnd = random.Random(op['salt'] * 1000 + op['tasks'])
    status = {}
    for i in range(op['tasks']):
        status['task-%d-%d' % (op['salt'], i)] = [(rnd.randint(0, 3), 4) for _ in range(rnd.randint(1, 6))]
    status['tag'] = op['tag']
    return status


class ProgressBackend(object):
    kind = 'progress'
    dims = False

    def followups(self):
        # a re-started seed without --continue starts from an empty status: the file gets smaller
        return [('same-address-smaller', {'kind': 'write', 'tasks': 1, 'salt': 7, 'tag': 900100, 'fresh': True}, 'progress'),
                ('same-address-larger', {'kind': 'write', 'tasks': 900, 'salt': 8, 'tag': 900200, 'fresh': True}, 'progress')]

    def expected(self, op):
        return {'progress': repr(sorted(_progress_status(op).items(), key=repr)).encode()}

    def __init__(self, case):
        self.case = case
        self.cfg = case['cfg']

    def make(self, root):
        from mapproxy.seed.util import ProgressStore
        os.makedirs(os.path.join(root, 'c'), exist_ok=True)
        return ProgressStore(os.path.join(root, 'c', '.mapproxy_seed_progress'), continue_seed=True)

    def apply(self, store, op):
        # what ProgressLog.log_progress does: add() on the loaded status, then write()
        if op.get('fresh'):
            store.status = {}
        for k, v in _progress_status(op).items():
            store.add(k, v)
        store.write()

    def op_addresses(self, op):
        return ['progress']

    def addresses(self):
        return ['progress']

    def read(self, store, addr):
        status = store.load()
        if status == {}:
            return None  # the documented "nothing"
        return repr(sorted(status.items(), key=repr)).encode()

    def representation(self, cache, addr):
        return None

    def shares_existing(self, root):
        return False


def backend_for(case):
    if case['backend'] in ('file', 'compact1', 'compact2'):
        return TileBackend(case)
    if case['backend'] == 'legend':
        return LegendBackend(case)
    return ProgressBackend(case)


# ------------------------------------------------------------------------------------------------
# running one case


def scratch_root():
    base = '/dev/shm' if os.path.isdir('/dev/shm') and os.access('/dev/shm', os.W_OK) else None
    return tempfile.mkdtemp(prefix='vc06-', dir=base)


class _patched_env(object):
    """deterministic temp names (write_atomic uses random.randint) and a short lock time-out (a lock that
    nobody holds is acquired at the first attempt or never, so the time-out only bounds a failing run)"""

    def __init__(self, seed):
        self.seed = seed

    def __enter__(self):
        # replace module attributes only where the tree under test has them (a tree that e.g. no longer imports
        # `random` in util/fs.py must not make the harness die)
        self._saved = []
        try:
            from mapproxy.util import fs
            if hasattr(fs, 'random'):
                self._set(fs, 'random', random.Random(self.seed))
            from mapproxy.cache import compact
            from mapproxy.util import lock
            base = getattr(lock, 'FileLock', None)
            if base is not None and getattr(compact, 'FileLock', None) is base:
                class ShortFileLock(base):
                    def __init__(self, lock_file, timeout=60.0, step=0.01, **kw):
                        base.__init__(self, lock_file, timeout=0.25, step=0.01, **kw)
                self._set(compact, 'FileLock', ShortFileLock)
        except BaseException:
            self.__exit__()
            raise
        return self

    def _set(self, obj, name, value):
        self._saved.append((obj, name, getattr(obj, name)))
        setattr(obj, name, value)

    def __exit__(self, *exc):
        for obj, name, old in reversed(self._saved):
            setattr(obj, name, old)
        self._saved = []
        return False


def file_class(backend, rel):
    name = os.path.basename(rel)
    if '.tmp-' in name:
        return 'tmp:' + file_class(backend, rel[:rel.index('.tmp-')])
    if name.endswith('.lck'):
        return 'lock'
    if name.endswith('.bundlx'):
        return 'bundlx'
    if name.endswith('.bundle'):
        return 'bundle'
    if 'single_color_tiles' in rel.split(os.sep):
        return 'sctile'
    if '.' not in name:
        return 'dir'
    return {'file': 'tile', 'legend': 'legend', 'progress': 'progress'}.get(backend, 'file')


def locations(case, ops):
    """root-cause location of every crash point: loc[k] describes the last applied op of prefix k"""
    paths = {}
    locs = ['pre-state']
    for op in ops:
        if op[0] == 'open':
            paths[op[1]] = op[2]
            rel = op[2]
        elif op[0] in ('write', 'ftruncate', 'close'):
            rel = paths[op[1]]
        elif op[0] in ('rename', 'link', 'symlink'):
            rel = op[2]
        else:
            rel = op[1]
        locs.append('after-%s:%s' % (op[0], file_class(case['backend'], rel)))
    return locs, paths


class Recorded(object):
    """everything known about one case after the recording run"""
    pass


def record_case(case, root):
    be = backend_for(case)
    seed = int(core.case_hash({k: v for k, v in case.items() if k != 'crash'}), 16) % (2 ** 31)
    live = os.path.join(root, 'live')
    os.makedirs(os.path.join(live, 'c'))
    with _patched_env(seed):
        for o in case['history']:
            be.apply(be.make(live), o)
        addrs = be.addresses()
        reader = be.make(live)
        old = dict((a, be.read(reader, a)) for a in addrs)
        old_repr = dict((a, be.representation(reader, a)) for a in addrs)
        shares = be.shares_existing(live)
        pre = os.path.join(root, 'pre')
        fsrec.copy_tree(live, pre)
        pre_digest = fsrec.tree_digest(live)
        target = be.make(live)
        with fsrec.Recorder(live) as rec:
            be.apply(target, case['store'])
            del target
            gc.collect()
        if rec.open_handles():
            raise core.HarnessError('store left descriptors open: %r' % (rec.open_handles(),))
        if fsrec.tree_digest(pre) != pre_digest:
            raise core.HarnessError('snapshot differs from the pre-state')
        live_digest = fsrec.tree_digest(live)  # before reading: v1 readers may create an empty bundle file
        reader = be.make(live)
        new = dict((a, be.read(reader, a)) for a in addrs)
        new_repr = dict((a, be.representation(reader, a)) for a in addrs)
    r = Recorded()
    r.be, r.case, r.ops, r.pre, r.live = be, case, rec.ops, pre, live
    r.addrs, r.old, r.new, r.old_repr, r.new_repr = addrs, old, new, old_repr, new_repr
    r.batch = set(be.op_addresses(case['store']))
    r.followups = be.followups()
    r.shares = shares
    r.seed = seed
    r.outside = rec.outside
    r.locs, r.paths = locations(case, rec.ops)
    # recorder completeness: replaying the whole log must reproduce what the real store left behind
    full = os.path.join(root, 'full')
    fsrec.materialise(rec.ops, pre, full, len(rec.ops))
    d1, d2 = fsrec.tree_digest(full), live_digest
    shutil.rmtree(full)
    if d1 != d2:
        diff = sorted(k for k in set(d1) | set(d2) if d1.get(k) != d2.get(k))
        raise core.HarnessError('replay of the full op list does not reproduce the stored directory: %r (case %s)'
                                % (diff[:5], json.dumps(core.jsonable(case))))
    if rec.outside:
        raise core.HarnessError('store touched %d paths outside its cache directory' % rec.outside)
    return r


def _fmt(b):
    if b is None:
        return 'missing'
    return '%d bytes sha1 %s' % (len(b), hashlib.sha1(b).hexdigest()[:8])


def classify(r, addr, got):
    """what kind of wrong content"""
    for a, v in list(r.old.items()) + list(r.new.items()):
        if a != addr and v is not None and got == v:
            return 'foreign'
    for v in (r.old.get(addr), r.new.get(addr)):
        if v is not None and got is not None and len(got) < len(v) and v.startswith(got):
            return 'truncated'
    return 'other-bytes'


def _v1_entry_split(r, k, cut):
    """addresses whose 5-byte v1 index entry is split by the torn write (k, cut)"""
    if r.case['backend'] != 'compact1' or cut is None:
        return set()
    op = r.ops[k]
    rel = r.paths[op[1]]
    if not rel.endswith('.bundlx'):
        return set()
    pos = op[2] + cut
    if pos < 16 or (pos - 16) % 5 == 0:
        return set()
    entry = (pos - 16) // 5
    x, y = entry // 128, entry % 128
    cache = r.be.make(r.live)
    out = set()
    for a in r.addrs:
        (ax, ay, az), _ = a
        base = cache._get_bundle_fname_and_offset((ax, ay, az))[0]
        if os.path.relpath(base + '.bundlx', r.live) == rel and (ax % 128, ay % 128) == (x, y):
            out.add(a)
    return out


def check_state(r, state_dir, k, cut, stats, tolerate=True, restore=True, all_variants=False):
    """oracle on one post-crash directory; returns a Violation or None"""
    be, case = r.be, r.case
    if cut is not None:
        loc = 'torn-write:' + r.locs[k + 1].split(':', 1)[1]
    else:
        loc = 'complete' if k == len(r.ops) else r.locs[k]
    where = 'crash %s (op %d of %d%s)' % (loc, k, len(r.ops), ', write cut at %d bytes' % cut if cut is not None else '')
    vcase = dict(case)
    vcase['crash'] = [k, cut]
    split = _v1_entry_split(r, k, cut)
    with _patched_env(r.seed + 1):
        try:
            reader = be.make(state_dir)
        except Exception as e:
            return core.Violation('C06/%s/%s/open-raises' % (case['backend'], loc),
                                  '%s: opening the cache/progress store raises %r' % (where, e), vcase)
        seen = {}
        for a in r.addrs:
            old, new = r.old[a], r.new[a]
            in_batch = a in r.batch
            try:
                got = be.read(reader, a)
                exc = None
            except Exception as e:  # a reader must get old, new or missing - never an exception
                got, exc = None, e
            seen[a] = got if exc is None else _UNREADABLE
            allowed = (old, new) if in_batch else (old,)
            missing_rule = None
            if exc is not None:
                ok = False
            elif got is not None:
                ok = any(got == v for v in allowed)
            elif any(v is None for v in allowed):
                ok = True  # had no content before / is being removed
            elif in_batch and r.old_repr.get(a) in ('link', 'hardlink'):
                # the one window the property allows: a linked single-colour tile that is just being replaced
                ok = True
                stats.notes['allowed-missing-window:linked-tile-replaced'] += 1
            else:
                ok = False
                if in_batch:
                    missing_rule = '%s->%s' % (r.old_repr.get(a), r.new_repr.get(a))
            if ok:
                continue
            # --- a deviation; name its root cause
            if a in split:
                sig = SIG_V1_TORN_ENTRY
            elif missing_rule is not None and case['backend'] == 'file' and r.old_repr.get(a) == 'regular' \
                    and r.new_repr.get(a) in ('link', 'hardlink'):
                sig = SIG_REGULAR_TO_LINK
            elif exc is not None:
                sig = 'C06/%s/%s/load-raises' % (case['backend'], loc)
            elif not in_batch:
                sig = 'C06/%s/%s/nonbatch-changed' % (case['backend'], loc)
            elif got is None:
                sig = 'C06/%s/%s/missing[%s]' % (case['backend'], loc, missing_rule or 'content')
            else:
                sig = 'C06/%s/%s/%s' % (case['backend'], loc, classify(r, a, got))
            if tolerate and sig in open_sigs():
                stats.excluded['known-finding-deviation:' + sig] += 1
                continue
            if exc is not None:
                msg = '%s: reading %r raises %r' % (where, a, exc)
            else:
                msg = '%s: address %r reads %s; old = %s, new = %s%s' % (
                    where, a, _fmt(got), _fmt(old), _fmt(new), '' if in_batch else ' (not part of the store)')
            return core.Violation(sig, msg, vcase)
        if not restore:
            return None
        # --- post-crash continuation: a restarted process stores something ELSE first.  What was visible right
        # after the crash must not change or vanish because of it.
        for variant, fop, faddr in r.followups:
            # cost: 'neighbour' and 'same-address-smaller' run on every crash state, the other two on every second
            # crash index (all variants when a single crash point is replayed); counted in notes
            if not all_variants and ((variant == 'prior-overwrite' and k % 2) or
                                     (variant == 'same-address-larger' and not k % 2)):
                continue
            cdir = state_dir + '-' + variant
            fsrec.copy_tree(state_dir, cdir)
            try:
                v = _continuation(r, cdir, variant, fop, faddr, seen, split, tolerate, loc, where, vcase, stats)
            finally:
                shutil.rmtree(cdir, ignore_errors=True)
            if v is not None:
                return v
        # --- restart: the same store again on the crashed directory (stale lock / temp files must not matter)
        try:
            be.apply(be.make(state_dir), case['store'])
        except Exception as e:
            kind = 'stale-lock-blocks-next-store' if type(e).__name__ == 'LockTimeout' else 'next-store-raises'
            return core.Violation('C06/%s/%s/%s' % (case['backend'], loc, kind),
                                  '%s: repeating the store after restart raises %r' % (where, e), vcase)
        reader = be.make(state_dir)
        for a in r.addrs:
            want = r.new[a] if a in r.batch else r.old[a]
            try:
                got = be.read(reader, a)
            except Exception as e:
                return core.Violation('C06/%s/%s/next-store-unreadable' % (case['backend'], loc),
                                      '%s: after repeating the store, reading %r raises %r' % (where, a, e), vcase)
            if got != want:
                if a in split and tolerate and SIG_V1_TORN_ENTRY in open_sigs():
                    continue
                return core.Violation('C06/%s/%s/next-store-wrong' % (case['backend'], loc),
                                      '%s: after repeating the store, %r reads %s, expected %s'
                                      % (where, a, _fmt(got), _fmt(want)), vcase)
    return None


def _continuation(r, cdir, variant, fop, faddr, seen, split, tolerate, loc, where, vcase, stats):
    be, case = r.be, r.case
    stats.notes['continuation-states:' + variant] += 1
    try:
        be.apply(be.make(cdir), fop)
    except Exception as e:
        kind = 'stale-lock-blocks-next-store' if type(e).__name__ == 'LockTimeout' else 'followup-%s-raises' % variant
        return core.Violation('C06/%s/%s/%s' % (case['backend'], loc, kind),
                              '%s: a follow-up store of %r after restart raises %r' % (where, faddr, e), vcase)
    reader = be.make(cdir)
    fwant = be.expected(fop)
    for a in r.addrs:
        if a in split and a not in fwant and tolerate and SIG_V1_TORN_ENTRY in open_sigs():
            continue  # the known torn v1 index entry points at arbitrary bytes
        if seen[a] is _UNREADABLE and a not in fwant:
            continue  # only reachable for a tolerated known deviation (anything else was reported above)
        try:
            got = be.read(reader, a)
        except Exception as e:
            return core.Violation('C06/%s/%s/followup-%s-unreadable' % (case['backend'], loc, variant),
                                  '%s: after a follow-up store of %r, reading %r raises %r' % (where, faddr, a, e), vcase)
        want = fwant[a] if a in fwant else seen[a]
        if got != want:
            kind = 'not-stored' if a in fwant else ('changes-batch-tile' if a in r.batch else 'changes-other-tile')
            return core.Violation('C06/%s/%s/followup-%s-%s' % (case['backend'], loc, variant, kind),
                                  '%s: after a follow-up store of %r by a restarted process, %r reads %s; expected what '
                                  'it read right after the crash / the follow-up content: %s%s' % (where, faddr, a, _fmt(got), _fmt(want),
                                                             ' (the follow-up content)' if a in fwant else ''), vcase)
    return None


def crash_points(r):
    """[(k, cut)]: every prefix, and every page-boundary cut of every write"""
    pts = []
    for k in range(len(r.ops) + 1):
        pts.append((k, None))
        if k < len(r.ops):
            for c in fsrec.page_cuts(r.ops[k]):
                pts.append((k, c))
    return pts


def beyond_model_points(r, cap=6):
    pts = []
    for k, op in enumerate(r.ops):
        if op[0] != 'write' or len(op[3]) < 2:
            continue
        n = len(op[3])
        if n <= 16:
            cuts = list(range(1, n))
        else:
            cuts = sorted(set([1, 2, 4, n // 2, n - 1, 4095 - op[2] % 4096]) - set(fsrec.page_cuts(op)))
            cuts = [c for c in cuts if 0 < c < n][:cap]
        pts.extend((k, c) for c in cuts)
    return pts


def run_case(case, stats, tolerate=True, beyond=True, all_variants=False):
    root = scratch_root()
    try:
        r = record_case(case, root)
        only = case.get('crash')
        pts = crash_points(r)
        if only:
            if (only[0], only[1]) in pts:
                pts = [(only[0], only[1])]
            else:
                # the code under test no longer issues the recorded op list: enumerate the whole case
                stats.notes['replay-crash-index-does-not-fit:enumerated-all'] += 1
        overwrite = any(r.old[a] is not None for a in r.batch)
        interesting = overwrite or r.shares
        ckey = core.case_hash({k: v for k, v in case.items() if k != 'crash'})
        base_classes = ['backend:' + case['backend'], 'store:' + case['store']['kind']]
        if case['backend'] == 'file':
            base_classes += ['file-link:' + case['cfg']['link'], 'file-layout:' + case['cfg']['layout']]
            if case['store'].get('dim', 0):
                base_classes.append('file-with-dimension')
            for a in r.batch:
                base_classes.append('file-transition:%s->%s' % (r.old_repr[a], r.new_repr[a]))
        if case['backend'].startswith('compact') and case['store']['kind'] == 'store_tiles':
            be = r.be.make(r.live)
            nb = len(set(be._get_bundle_fname_and_offset(tuple(t['coord']))[0] for t in case['store']['tiles']))
            base_classes.append('compact-batch:%s' % ('one-bundle' if nb == 1 else 'across-bundles'))
        if case['backend'] == 'compact1' and any((c[0] % 128, c[1] % 128) in V1_STRADDLE for c, _ in r.batch):
            base_classes.append('compact1-batch-has-page-straddling-index-entry')
        if overwrite:
            base_classes.append('overwrites-existing')
        if r.shares:
            base_classes.append('shares-existing-bundle')
        if case['cfg'].get('perms'):
            base_classes.append('with-permissions')
        stats.notes['cases'] += 1
        stats.notes['ops-total'] += len(r.ops)
        stats.extra['max_ops_per_store_by_shard'] = [max((stats.extra.get('max_ops_per_store_by_shard') or [0])[0],
                                                         len(r.ops))]
        for c in set(base_classes):
            stats.classes['case/' + c] += 1
        n = 0
        for k, cut in pts:
            d = os.path.join(root, 's%d' % n)
            n += 1
            fsrec.materialise(r.ops, r.pre, d, k, cut)
            try:
                v = check_state(r, d, k, cut, stats, tolerate=tolerate, all_variants=all_variants or bool(only))
            finally:
                shutil.rmtree(d, ignore_errors=True)
            inside = cut is not None or 0 < k < len(r.ops)
            cl = list(base_classes)
            cl.append('point:torn-page-cut' if cut is not None else
                      ('point:' + r.locs[k].split(':')[0] if inside else 'point:trivial-end'))
            stats.case(key=(ckey, k, cut), nontrivial=bool(inside and interesting), classes=cl,
                       sample={'case': case, 'crash': [k, cut], 'ops': len(r.ops)} if inside and interesting
                       and k == len(r.ops) // 2 else None)
            if v is not None:
                return v
        if beyond and not only and int(ckey, 16) % 4 == 0:
            # byte-granular cuts: statistics only, never a verdict (every 4th case)
            for k, cut in beyond_model_points(r):
                d = os.path.join(root, 'b%d' % n)
                n += 1
                fsrec.materialise(r.ops, r.pre, d, k, cut)
                try:
                    v = check_state(r, d, k, cut, core.Stats(), tolerate=False, restore=False)
                finally:
                    shutil.rmtree(d, ignore_errors=True)
                stats.notes['beyond-model-byte-cut-states'] += 1
                if v is not None:
                    stats.notes['beyond-model-bad-state:%s/%s' % (case['backend'], v.signature.split('/', 2)[2])] += 1
        return None
    finally:
        shutil.rmtree(root, ignore_errors=True)


def check_case(case, stats):
    return run_case(case, stats)


# ------------------------------------------------------------------------------------------------
# strace cross-check of the recorder (thorough tier)


def _child(spec_path):
    """subprocess body: rebuild the prior history, then run the store under test between two marker stats"""
    with open(spec_path) as f:
        spec = json.load(f)
    case, root = normalise_case(spec['case']), spec['root']
    be = backend_for(case)
    seed = int(core.case_hash({k: v for k, v in case.items() if k != 'crash'}), 16) % (2 ** 31)
    live = os.path.join(root, 'live')
    os.makedirs(os.path.join(live, 'c'))
    with _patched_env(seed):
        for o in case['history']:
            be.apply(be.make(live), o)
        be.addresses()
        reader = be.make(live)
        for a in be.addresses():
            be.read(reader, a)
        be.shares_existing(live)
        target = be.make(live)
        try:
            os.stat(os.path.join(root, '__MARK_BEGIN__'))
        except OSError:
            pass
        be.apply(target, case['store'])
        del target
        gc.collect()
        try:
            os.stat(os.path.join(root, '__MARK_END__'))
        except OSError:
            pass


def strace_crosscheck(case, stats):
    root = scratch_root()
    root2 = scratch_root()
    try:
        r = record_case(case, root)
        mine = fsrec.normalise_ops(r.ops)
        spec = os.path.join(root2, 'spec.json')
        with open(spec, 'w') as f:
            json.dump({'case': core.jsonable(case), 'root': root2}, f)
        out = os.path.join(root2, 'strace.txt')
        env = dict(os.environ)
        env['PYTHONHASHSEED'] = '0'
        cmd = ['strace', '-f', '-y', '-s', '0', '-e', 'trace=' + fsrec.STRACE_SYSCALLS + ',stat,newfstatat,statx',
               '-o', out, sys.executable, '-c',
               'import sys; sys.path.insert(0, %r); from vcheck.props import c06_crash as m; m._child(%r)'
               % (core.VERIF_DIR, spec)]
        p = subprocess.run(cmd, env=env, cwd=core.VERIF_DIR, stdout=subprocess.PIPE, stderr=subprocess.STDOUT)
        if p.returncode != 0 or not os.path.exists(out):
            stats.inconclusive['strace-unavailable'] += 1
            stats.extra.setdefault('strace_error', p.stdout.decode(errors='replace')[-400:])
            return
        with open(out) as f:
            text = f.read()
        b, e = text.find('__MARK_BEGIN__'), text.find('__MARK_END__')
        if b < 0 or e < 0:
            raise core.HarnessError('strace markers not found')
        theirs = fsrec.parse_strace(text[b:e], os.path.join(root2, 'live'))

        def loosen(seq):
            # the lock file content is the pid (length varies); everything else must agree exactly
            return [(kind, p1, None if (p1 or '').endswith('.lck') and kind in ('write', 'truncate') else p2)
                    for kind, p1, p2 in seq]
        if loosen(mine) != loosen(theirs):
            for i, (x, y) in enumerate(zip(loosen(mine) + [None] * 5, loosen(theirs) + [None] * 5)):
                if x != y:
                    raise core.HarnessError('recorder and strace disagree at op %d: recorder %r, strace %r (case %s)'
                                            % (i, x, y, json.dumps(core.jsonable(case))))
        stats.notes['strace-crosschecked-stores'] += 1
        stats.notes['strace-crosschecked-ops'] += len(mine)
    finally:
        shutil.rmtree(root, ignore_errors=True)
        shutil.rmtree(root2, ignore_errors=True)


# ------------------------------------------------------------------------------------------------


def strace_part(seed, st_, n=6):
    """recorder completeness against strace for a few generated stores"""
    import hypothesis
    picked = []

    @hypothesis.seed(seed)
    @hypothesis.settings(max_examples=n, database=None, deadline=None,
                         suppress_health_check=list(hypothesis.HealthCheck),
                         phases=[hypothesis.Phase.generate], verbosity=hypothesis.Verbosity.quiet)
    @hypothesis.given(cases())
    def collect(c):
        picked.append(c)
    collect()
    for c in picked:
        strace_crosscheck(c, st_)


def random_shard(shard, nshards, seed, tier):
    st_ = core.Stats()
    n = (2800 if tier == 'quick' else 64000) // nshards
    core.hyp_search(cases(), check_case, st_, max_examples=n, seed=seed, max_signatures=2 if tier == 'quick' else 4)
    if tier == 'thorough' and shard < 8:
        strace_part(seed, st_)
    return st_


def run(tier, seed, stats):
    stats.merge(core.parallel(random_shard, 16, seed, tier))
    stats.extra['crash_model'] = 'process death; every op-list prefix + page-boundary (4096) write cuts; exhaustive per case'


def normalise_case(case):
    """JSON round trip turns tuples into lists and dict keys into str; rebuild the generator's shape"""
    case = json.loads(json.dumps(case))
    case.setdefault('crash', None)
    return case


def replay(case, stats):
    case = normalise_case(case)
    v = run_case(case, stats, tolerate=False, beyond=False, all_variants=True)
    return [v] if v else []
