"""C04 - A tile is the same image however it was produced.

A real mapproxy.cache.tile.TileManager (built with the option combinations that
mapproxy/config/loader.py CacheConfiguration.caches() produces) is driven with generated tile requests.
Its source is a real WMSSource / TiledSource whose *client* is synthetic and renders the analytic ground
function (vcheck/ground.py) for the requested rectangle; its cache is a recording in-memory backend that
keeps the encoded bytes of every store_tile(s) call.  See DESIGN.md section 5.
"""
import hashlib
import io
import shutil
import tempfile
import threading
from fractions import Fraction as Fr

import numpy as np
from hypothesis import strategies as st

from .. import core
from ..ground import Ground
from ..refgrid import RefGrid

PROPERTY = 'C04'
LEVEL = 'exploration'
RULE = ('Hypothesis-generated tile grids (nice/nasty bbox floats, tile size 16-256 incl. non-square, origin ll/ul, '
        'factor 2 / sqrt2 / arbitrary factor / custom resolution lists, so that borders cut through tiles and coarse '
        'levels are smaller than the meta size) x two independently generated cache settings (WMS-like or tiled source, '
        'meta_size 1-4 x 1-4, meta_buffer 0-100, minimize_meta_requests, bulk_meta_tiles, concurrent_tile_creators 1-4, '
        'dummy or file locker, opaque or transparent PNG) x 1-3 requests (one tile as TMS/WMTS do, or the tile block '
        'grid.get_affected_tiles returns for a rectangle placed on / across the grid borders, incl. None entries) run '
        'against a real TileManager with a ground-function source and a recording cache.  Every stored and served tile is '
        'compared with the ground function on its own bbox, the two settings with each other, and the upstream/store log '
        'with a reference plan.  A case is non-trivial when a buffer is truncated on >= 1 side, the meta size is clipped '
        'by a small level, a minimal meta tile differs from the regular one, a requested block contains None, the coverage '
        'of a tiled source leaves part of a bulk meta tile without data, or two requests are interleaved inside '
        'MetaGrid.meta_tile() (forced two-thread episode on a block straddling two meta tiles); distinct = distinct '
        '(grid, settings, requests).  Tiled sources carry a bbox / polygon coverage in half of the cases: tiles without '
        'data upstream must be neither stored nor served, all others must show their own ground.')
ASSUMPTIONS = [
    'cache format PNG, non-paletted (image.paletted: false; DESIGN section 1), opaque or transparent; JPEG / mixed caches not judged',
    'upstream picture depends on ground position only: F rendered at the pixel centres of the requested rectangle and rounded',
    '"bit-identical" is judged on decoded pixels: |stored - F(pixel centre of the tile\'s own bbox)| <= 0.5 + 1e-3 levels, '
    'i.e. equal to the rounded reference except at exact rounding ties of the float evaluation (coordinate noise <= 1e-6 px)',
    '"inside the grid extent" = pixel square inside grid.bbox for the bit-identical clause, pixel square more than one pixel '
    'inside (centre >= 1.5 px from the border) for the 1-px and background clauses; rho = 1.0 px, eps = 3 levels',
    '"no buffer cut off" is decided by the reference grid: rectangle of the stored in-grid tiles +- meta_buffer px lies inside grid.bbox',
    'meta tiles are the blocks of min(meta_size, level grid size) tiles counted from tile index 0 (reference plan for the upstream log)',
    'a tile has data in a tiled source with coverage iff the coverage intersects the tile shrunk by 1e-6 tile spans; tiles the '
    'coverage border touches within that margin exclude the case; coverages are not clipping (clip: false)',
    'race episode: waits are bounded (300 s) and only decide coverage (inconclusive), never a verdict',
    'grids restricted to coordinate magnitude / resolution <= 1e9 and, for tiled sources, to levels that closest_level() can tell apart',
]

RHO = 1.0
EPS = 3.0
TIE_TOL = 1e-3
MAX_BLOCK = 30


# ------------------------------------------------------------------------------------------------
# generators

NASTY_ORIGINS = [0.0, -20037508.342789244, -180.0, 1.0, 0.1, -0.3, 12.5, 300000.0, 5200000.0, 3280000.123,
                 -1234567.891, 643211.3333333334]
NASTY_SIZES = [40075016.68557849, 360.0, 1.0, 10.0, 1000.0, 0.3, 7.0, 1024.0, 333.3333, 600000.0, 123456.789,
               20037508.342789244, 5000.0, 99999.99]
TILE_EDGES = [16, 16, 16, 17, 24, 32, 32, 32, 50, 64, 64, 100, 128, 256]


@st.composite
def grid_defs(draw):
    x0 = draw(st.one_of(st.sampled_from(NASTY_ORIGINS), st.floats(-2e7, 2e7, allow_nan=False, allow_infinity=False)))
    y0 = draw(st.one_of(st.sampled_from(NASTY_ORIGINS), st.floats(-2e7, 2e7, allow_nan=False, allow_infinity=False)))
    w = draw(st.one_of(st.sampled_from(NASTY_SIZES), st.floats(1e-1, 4e7)))
    if draw(st.booleans()):
        h = w
    else:
        h = draw(st.one_of(st.sampled_from(NASTY_SIZES), st.floats(1e-1, 4e7)))
    if h > w * 8:
        h = w * 8
    if w > h * 8:
        w = h * 8
    tw = draw(st.one_of(st.sampled_from(TILE_EDGES), st.integers(16, 256)))
    th = tw if draw(st.integers(0, 2)) else draw(st.one_of(st.sampled_from(TILE_EDGES), st.integers(16, 256)))
    origin = draw(st.sampled_from(['ll', 'ul']))
    mode = draw(st.sampled_from(['f2', 'f2', 'sqrt2', 'factor', 'custom', 'custom', 'span', 'span', 'span', 'span']))
    d = {'bbox': (x0, y0, x0 + w, y0 + h), 'tile_size': (tw, th), 'origin': origin, 'mode': mode}
    init = max(w / tw, h / th)
    if mode == 'f2':
        d['num_levels'] = draw(st.sampled_from([1, 2, 3, 4, 5, 5, 6, 6, 7]))
    elif mode == 'sqrt2':
        d['num_levels'] = draw(st.sampled_from([1, 3, 5, 7, 9, 10, 11, 12]))
    elif mode == 'factor':
        d['res_factor'] = draw(st.floats(1.2, 3.5))
        d['num_levels'] = draw(st.integers(1, 7))
    elif mode == 'span':
        # resolutions chosen so that the extent is t tiles wide: integer and fractional tile counts, small and large levels
        ts = draw(st.lists(st.sampled_from([0.4, 1.0, 1.5, 2.0, 2.3, 3.0, 4.0, 5.0, 7.7, 8.0, 9.0, 13.1, 16.0, 40.0,
                                            100.5, 256.0]), min_size=1, max_size=4, unique=True))
        d['res'] = [init / t for t in sorted(ts)]
    else:
        n = draw(st.integers(1, 6))
        ratios = draw(st.lists(st.one_of(st.sampled_from([2.0, 1.3, 1.5, 2.5, 4.0, 3.0]), st.floats(1.2, 5.0)),
                               min_size=n, max_size=n))
        r = init * draw(st.sampled_from([1.0, 1.0, 0.5, 0.37, 1.3, 2.0, 0.11]))
        res = []
        for q in ratios:
            res.append(r)
            r = r / q
        if draw(st.booleans()):
            res = sorted(set(float('%.3g' % v) for v in res), reverse=True)
        d['res'] = res
    return d


def build_grid(d):
    from mapproxy import grid as mgrid
    kw = dict(srs='EPSG:3857', bbox=[float(v) for v in d['bbox']], tile_size=tuple(int(v) for v in d['tile_size']),
              origin=d['origin'])
    mode = d['mode']
    if mode == 'f2':
        kw['num_levels'] = d['num_levels']
    elif mode == 'sqrt2':
        kw['res_factor'] = 'sqrt2'
        kw['num_levels'] = d['num_levels']
    elif mode == 'factor':
        kw['res_factor'] = d['res_factor']
        kw['num_levels'] = d['num_levels']
    else:
        kw['res'] = [float(v) for v in d['res']]
    return mgrid.tile_grid(**kw)


def meaningful(g):
    m = max(abs(v) for v in g.bbox)
    res = list(g.resolutions)
    if len(set(res)) != len(res):
        return False
    return all(r > 0 and m / r <= 1e9 and r >= 1e-7 for r in res) and all(gs[0] * gs[1] < 10 ** 12 for gs in g.grid_sizes)


@st.composite
def settings_(draw, alone_bias=False):
    if alone_bias and draw(st.integers(0, 3)) == 0:
        # "fetched alone": no meta tiling at all
        return {'source': draw(st.sampled_from(['wms', 'tiled'])), 'meta_size': [1, 1], 'meta_buffer': 0,
                'minimize': False, 'bulk': False, 'creators': draw(st.integers(1, 3)), 'locker': 'dummy'}
    source = draw(st.sampled_from(['wms', 'wms', 'tiled']))
    s = {'source': source,
         'meta_size': [draw(st.integers(1, 4)), draw(st.integers(1, 4))],
         'meta_buffer': draw(st.one_of(st.sampled_from([0, 0, 1, 2, 3, 5, 8, 10, 16, 20, 40, 80, 100]), st.integers(0, 100))),
         'minimize': draw(st.booleans()),
         'bulk': draw(st.booleans()),
         'creators': draw(st.integers(1, 4)),
         'locker': draw(st.sampled_from(['dummy', 'dummy', 'dummy', 'file']))}
    if source == 'tiled':
        s['bulk'] = draw(st.sampled_from([True, True, True, False]))
        if draw(st.integers(0, 2)) > 0:
            # source coverage (bbox or polygon) placed in tile units relative to the first request's anchor tile, so that
            # its border runs through the requested meta tiles: some tiles of a meta tile have no data upstream
            s['coverage'] = {'shape': draw(st.sampled_from(['bbox', 'bbox', 'diamond', 'triangle'])),
                             # (fractions chosen so that no edge of the rectangle falls on a tile edge)
                             'dx': draw(st.sampled_from([-2.3, -1.4, -0.3, -0.3, 0.3, 0.3, 0.6, 1.3])),
                             'dy': draw(st.sampled_from([-2.3, -1.4, -0.3, -0.3, 0.3, 0.3, 0.6, 1.3])),
                             'w': draw(st.sampled_from([0.45, 0.45, 1.2, 1.45, 2.2, 2.45, 3.8])),
                             'h': draw(st.sampled_from([0.45, 0.45, 1.2, 1.45, 2.2, 2.45, 3.8]))}
    return s


ANCHOR = st.one_of(st.tuples(st.just('lo'), st.integers(0, 2)), st.tuples(st.just('hi'), st.integers(0, 2)),
                   st.tuples(st.just('lo'), st.integers(3, 9)), st.tuples(st.just('frac'), st.floats(0.0, 1.0)),
                   st.tuples(st.just('frac'), st.floats(0.0, 1.0)))


@st.composite
def requests_(draw):
    kind = draw(st.sampled_from(['tile', 'block', 'block']))
    r = {'kind': kind, 'ax': draw(ANCHOR), 'ay': draw(ANCHOR)}
    if kind == 'block':
        r['ox'] = draw(st.sampled_from([-1.3, -0.6, 0.0, 0.0, 0.25, 0.5, 0.05]))
        r['oy'] = draw(st.sampled_from([-1.3, -0.6, 0.0, 0.0, 0.25, 0.5, 0.05]))
        r['w'] = draw(st.one_of(st.sampled_from([0.5, 1.0, 2.0, 3.0]), st.floats(0.3, 4.2)))
        r['h'] = draw(st.one_of(st.sampled_from([0.5, 1.0, 2.0, 3.0]), st.floats(0.3, 4.2)))
    return r


@st.composite
def cases(draw):
    case = draw(cases_base())
    # forced two-thread interleaving on setting 0 (see race_episode); applied when the setting allows it
    if draw(st.integers(0, 3)) == 0:
        case['race'] = {'ax': draw(ANCHOR), 'ay': draw(ANCHOR), 'h': draw(st.sampled_from([0.5, 0.5, 1.5]))}
    else:
        case['race'] = None
    return case


@st.composite
def cases_base(draw):
    return {'grid': draw(grid_defs()),
            'transparent': draw(st.sampled_from([False, False, True])),
            'period_px': draw(st.sampled_from([48.0, 64.0, 96.0])),
            # all requests of a case address one level: the ground function has its fine period at that level's
            # resolution (the pixel oracle needs F to vary slowly over one pixel); levels do not interact in a TileManager
            # (counted from the finest level, so that levels much larger than a meta tile are frequent)
            'lp': draw(st.sampled_from([0, 0, 0, 1, 1, 1, 2, 2, 3, 3, 4, 5, 6, 8])),
            'settings': [draw(settings_()), draw(settings_(alone_bias=True))],
            'requests': draw(st.lists(requests_(), min_size=1, max_size=3))}


# ------------------------------------------------------------------------------------------------
# harness: synthetic clients, recording cache

class EventLog(object):
    def __init__(self):
        self.events = []
        self._lock = threading.Lock()

    def add(self, ev):
        with self._lock:
            self.events.append(ev)

    def cut(self):
        with self._lock:
            evs, self.events = self.events, []
        return evs


def _encode_png(arr, transparent):
    from PIL import Image
    if transparent:
        a = np.concatenate([arr, np.full(arr.shape[:2] + (1,), 255, np.uint8)], axis=2)
        img = Image.fromarray(a, 'RGBA')
    else:
        img = Image.fromarray(arr, 'RGB')
    buf = io.BytesIO()
    img.save(buf, 'PNG', compress_level=1)
    buf.seek(0)
    return buf


UPSTREAM_REFUSAL = 'C04-UPSTREAM-REFUSAL'


class FakeWMSClient(object):
    """Stands in for mapproxy.client.wms.WMSClient: retrieve(query, format) -> response buffer."""

    def __init__(self, ground, log, transparent):
        self.ground = ground
        self.log = log
        self.transparent = transparent

    def retrieve(self, query, format):
        bbox = tuple(float(v) for v in query.bbox)
        size = (int(query.size[0]), int(query.size[1]))
        self.log.add(('get', threading.get_ident(), bbox, size))
        if size[0] < 1 or size[1] < 1 or not (bbox[0] < bbox[2] and bbox[1] < bbox[3]):
            # what a WMS server does with such a request: it refuses it (the request is the verdict's business,
            # not a harness problem - see raised_in_harness)
            from mapproxy.client.http import HTTPClientError
            raise HTTPClientError('%s: the upstream refuses a map request of size %r for bbox %r' % (UPSTREAM_REFUSAL, size, bbox))
        arr = self.ground.render_array(bbox, size, self.ground.srs)
        return _encode_png(arr, self.transparent)

    def combined_client(self, other, query):
        return None


class FakeTileClient(object):
    """Stands in for mapproxy.client.tile.TileClient: get_tile(tile_coord, format) -> ImageSource of the
    response buffer.  The tile rectangle comes from the exact reference grid."""

    def __init__(self, ground, log, ref, transparent):
        self.ground = ground
        self.log = log
        self.ref = ref
        self.transparent = transparent

    def get_tile(self, tile_coord, format=None):
        from mapproxy.image import ImageSource
        x, y, z = tile_coord
        bbox = tuple(float(v) for v in self.ref.tile_rect(x, y, z))
        size = (self.ref.tw, self.ref.th)
        self.log.add(('get', threading.get_ident(), bbox, size))
        arr = self.ground.render_array(bbox, size, self.ground.srs)
        return ImageSource(_encode_png(arr, self.transparent))


def make_cache_class():
    from mapproxy.cache.base import TileCacheBase, tile_buffer
    from mapproxy.image import ImageSource

    class RecordingCache(TileCacheBase):
        """dict backend with the calling convention of FileCache; logs every store call."""
        lock_cache_id = 'c04'

        def __init__(self, log, image_opts):
            TileCacheBase.__init__(self, coverage=None)
            self.log = log
            self.image_opts = image_opts
            self.data = {}
            self._lock = threading.Lock()

        def is_cached(self, tile, dimensions=None):
            if tile.is_missing():
                with self._lock:
                    return tile.coord in self.data
            return True

        def load_tile_metadata(self, tile, dimensions=None):
            tile.timestamp = 1.0
            with self._lock:
                tile.size = len(self.data.get(tile.coord, b''))

        def load_tile(self, tile, with_metadata=False, dimensions=None):
            if not tile.is_missing():
                return True
            with self._lock:
                data = self.data.get(tile.coord)
            if data is None:
                return False
            if with_metadata:
                self.load_tile_metadata(tile)
            tile.source = ImageSource(io.BytesIO(data), image_opts=self.image_opts)
            return True

        def remove_tile(self, tile, dimensions=None):
            with self._lock:
                self.data.pop(tile.coord, None)

        def _put(self, tile):
            if tile.stored:
                return None
            with tile_buffer(tile) as buf:
                data = buf.read()
            with self._lock:
                self.data[tile.coord] = data
            return (tuple(tile.coord), data)

        def store_tile(self, tile, dimensions=None):
            rec = self._put(tile)
            self.log.add(('store', threading.get_ident(), [rec] if rec else [], 'store_tile'))
            return True

        def store_tiles(self, tiles, dimensions=None):
            recs = [r for r in (self._put(t) for t in tiles) if r]
            self.log.add(('store', threading.get_ident(), recs, 'store_tiles'))
            return True

    return RecordingCache


def build_manager(grid, ref, setting, ground, transparent, log, lock_dir, coverage=None):
    """Mirror of CacheConfiguration.caches(): same constructor arguments, same option values."""
    from functools import partial
    from mapproxy.cache.tile import TileManager, TileCreator
    from mapproxy.cache.dummy import DummyLocker
    from mapproxy.cache.base import TileLocker
    from mapproxy.image.opts import ImageOptions, compatible_image_options
    from mapproxy.source.wms import WMSSource
    from mapproxy.source.tile import TiledSource

    if setting['source'] == 'wms':
        src_opts = ImageOptions(format='image/png', resampling='bicubic', transparent=True if transparent else None)
        source = WMSSource(FakeWMSClient(ground, log, transparent), image_opts=src_opts)
    else:
        src_opts = ImageOptions(resampling='bicubic', transparent=True if transparent else None)
        source = TiledSource(grid, FakeTileClient(ground, log, ref, transparent), image_opts=src_opts, coverage=coverage)
    base = ImageOptions(format='image/png', resampling='bicubic', colors=0, transparent=True if transparent else None)
    image_opts = compatible_image_options([src_opts], base_opts=base)
    cache = make_cache_class()(log, image_opts)
    if setting['locker'] == 'file':
        locker = TileLocker(lock_dir, 60, cache.lock_cache_id)
    else:
        locker = DummyLocker()
    mgr = TileManager(grid, cache, [source], image_opts.format.ext, locker=locker, image_opts=image_opts,
                      identifier='c04_grid', request_format='png',
                      meta_size=list(setting['meta_size']), meta_buffer=int(setting['meta_buffer']),
                      minimize_meta_requests=bool(setting['minimize']),
                      concurrent_tile_creators=int(setting['creators']), pre_store_filter=[],
                      tile_creator_class=partial(TileCreator, image_merger=None),
                      bulk_meta_tiles=bool(setting['bulk']), cache_rescaled_tiles=None, rescale_tiles=0)
    return mgr, cache


def raised_in_harness(exc):
    """True if the deepest traceback frame that belongs to either the harness or MapProxy is harness code
    (a bug or resource problem of the synthetic client / recording cache is a harness error, never a verdict)."""
    if UPSTREAM_REFUSAL in str(exc):
        return False
    tb = exc.__traceback__
    owner = 'harness'
    while tb is not None:
        name = tb.tb_frame.f_code.co_filename.replace('\\', '/')
        if '/vcheck/' in name:
            owner = 'harness'
        elif '/mapproxy/' in name:
            owner = 'mapproxy'
        tb = tb.tb_next
    return owner == 'harness' or isinstance(exc, MemoryError)


def join_workers():
    """worker threads of mapproxy.util.async_ get their shutdown sentinel but are not joined by MapProxy"""
    me = threading.current_thread()
    for t in threading.enumerate():
        if t is me or t is threading.main_thread() or t.daemon:
            continue
        if type(t).__name__ == 'ThreadWorker':
            t.join(300)
            if t.is_alive():
                raise core.HarnessError('worker thread of the code under test did not finish')


# ------------------------------------------------------------------------------------------------
# reference plan

def effective_mode(setting):
    """How a cache with this configuration creates tiles (documented option semantics):
    'single' | 'meta' | 'bulk'."""
    ms = list(setting['meta_size'])
    if setting['source'] == 'wms':
        if setting['meta_buffer'] > 0 or ms != [1, 1]:
            return 'meta'
        return 'single'
    if ms != [1, 1] and setting['bulk']:
        return 'bulk'
    return 'single'


def block_tiles(ref, z, bx, by, m):
    gx, gy = ref.grid_sizes[z]
    return frozenset((x, y, z) for x in range(bx * m[0], min((bx + 1) * m[0], gx))
                     for y in range(by * m[1], min((by + 1) * m[1], gy)))


class Ambiguous(Exception):
    """a tile touches the border of the source coverage within the float margin: the case is not judged"""


class SourceCoverage(object):
    """Coverage of a tiled source: the MapProxy object handed to TiledSource plus the reference answer to
    'does the source have data for this tile' (shapely, with a margin that keeps float noise out of the verdict)."""

    def __init__(self, ref, z, anchor, spec):
        import shapely.geometry as sg
        from mapproxy.srs import SRS
        from mapproxy.util.coverage import coverage
        sx, sy = ref.span(z)
        ar = ref.tile_rect(anchor[0], anchor[1], z)     # placed relative to the anchor tile (ll and ul grids alike)
        x0 = float(ar[0] + sx * Fr(spec['dx']))
        y0 = float(ar[1] + sy * Fr(spec['dy']))
        x1 = float(Fr(x0) + sx * Fr(spec['w']))
        y1 = float(Fr(y0) + sy * Fr(spec['h']))
        self.ref = ref
        self.margin = 1e-6 * float(min(sx, sy))
        if spec['shape'] == 'bbox':
            self.geom = sg.box(x0, y0, x1, y1)
            self.mp = coverage([x0, y0, x1, y1], SRS('EPSG:3857'))
        else:
            if spec['shape'] == 'diamond':
                pts = [((x0 + x1) / 2, y0), (x1, (y0 + y1) / 2), ((x0 + x1) / 2, y1), (x0, (y0 + y1) / 2)]
            else:
                pts = [(x0, y0), (x1, y0), (x0, y1)]
            self.geom = sg.Polygon(pts)
            self.mp = coverage(sg.Polygon(pts), SRS('EPSG:3857'))
        self._memo = {}

    def has_data(self, coord):
        import shapely.geometry as sg
        v = self._memo.get(coord)
        if v is None:
            r = [float(t) for t in self.ref.tile_rect(*coord)]
            m = self.margin
            if self.geom.intersects(sg.box(r[0] + m, r[1] + m, r[2] - m, r[3] - m)):
                v = 'yes'
            elif not self.geom.intersects(sg.box(r[0] - m, r[1] - m, r[2] + m, r[3] + m)):
                v = 'no'
            else:
                raise Ambiguous()
            self._memo[coord] = v
        return v == 'yes'


def plan_request(ref, setting, coords, cached, cov=None):
    """-> list of units {'tiles': frozenset, 'gets': int, 'kind': str} expected for one load_tile_coords call.
    `cov` (SourceCoverage or None): tiles without data upstream are neither requested from the client nor stored."""
    mode = effective_mode(setting)
    uncached = [c for c in coords if c is not None and c not in cached]
    if not uncached:
        return []
    if mode == 'single':
        return [{'tiles': frozenset([c]), 'gets': 1, 'kind': 'single', 'z': c[2]} for c in uncached
                if cov is None or cov.has_data(c)]
    z = uncached[0][2]
    gx, gy = ref.grid_sizes[z]
    m = (min(setting['meta_size'][0], gx), min(setting['meta_size'][1], gy))
    if mode == 'meta' and setting['minimize'] and len(uncached) > 1:
        xs = [c[0] for c in uncached]
        ys = [c[1] for c in uncached]
        tiles = frozenset((x, y, z) for x in range(min(xs), max(xs) + 1) for y in range(min(ys), max(ys) + 1))
        return [{'tiles': tiles, 'gets': 1, 'kind': 'minimal', 'z': z}]
    units = []
    seen = set()
    for c in uncached:
        b = (c[0] // m[0], c[1] // m[1])
        if b in seen:
            continue
        seen.add(b)
        tiles = block_tiles(ref, z, b[0], b[1], m)
        partly = False
        if mode == 'bulk' and cov is not None:
            have = frozenset(t for t in tiles if cov.has_data(t))
            partly = bool(have) and have != tiles
            tiles = have
        units.append({'tiles': tiles, 'gets': len(tiles) if mode == 'bulk' else 1,
                      'kind': 'bulk' if mode == 'bulk' else 'regular', 'z': z, 'partly-covered': partly})
    return units


def clipped_request_rect(ref, tiles, buffer_px):
    """rectangle of `tiles` +- buffer, clipped to the grid extent when a buffer is configured (exact)"""
    z = next(iter(tiles))[2]
    r = tiles_rect(ref, tiles)
    if buffer_px <= 0:
        return r
    d = ref.res[z] * buffer_px
    return (max(r[0] - d, ref.bbox[0]), max(r[1] - d, ref.bbox[1]), min(r[2] + d, ref.bbox[2]), min(r[3] + d, ref.bbox[3]))


def colliding_units(ref, setting, units):
    """regular meta tiles of one request whose clipped buffered rectangles coincide"""
    seen = {}
    for u in units:
        if u['kind'] != 'regular':
            continue
        r = clipped_request_rect(ref, u['tiles'], setting['meta_buffer'])
        if r in seen:
            return (seen[r], u)
        seen[r] = u
    return None


SIG_BULK_MINIMIZE = 'C04/exception/InvalidSourceQuery/bulk-minimized'
SIG_SAME_BBOX = 'C04/missing-upstream-request/meta/same-clipped-bbox'


def known_construct(ref, setting, resolved):
    """Pure reference pre-pass over the requests of one setting: which known-finding constructs occur."""
    out = set()
    mode = effective_mode(setting)
    cached = set()
    for kind, coords in resolved:
        units = plan_request(ref, setting, coords, cached)
        n_unc = len([c for c in coords if c is not None and c not in cached])
        if mode == 'bulk' and setting['minimize'] and n_unc > 1:
            out.add(SIG_BULK_MINIMIZE)
        if mode == 'meta' and colliding_units(ref, setting, units):
            out.add(SIG_SAME_BBOX)
        for u in units:
            cached |= u['tiles']
    return out


def tiles_rect(ref, tiles):
    rects = [ref.tile_rect(*t) for t in tiles]
    return (min(r[0] for r in rects), min(r[1] for r in rects), max(r[2] for r in rects), max(r[3] for r in rects))


def truncation(ref, tiles, buffer_px):
    """Sides ('l','b','r','t') on which the rectangle of `tiles` +- buffer leaves the grid extent."""
    if buffer_px <= 0:
        return ''
    z = next(iter(tiles))[2]
    r = tiles_rect(ref, tiles)
    d = ref.res[z] * buffer_px
    out = ''
    if r[0] - d < ref.bbox[0]:
        out += 'l'
    if r[1] - d < ref.bbox[1]:
        out += 'b'
    if r[2] + d > ref.bbox[2]:
        out += 'r'
    if r[3] + d > ref.bbox[3]:
        out += 't'
    return out


# ------------------------------------------------------------------------------------------------
# oracle on one stored image

def decode_rgba(data):
    from PIL import Image
    img = Image.open(io.BytesIO(data))
    img.load()
    return np.asarray(img.convert('RGBA')), img.mode


def inside_depth(ref, coord, tw, th):
    """depth (in pixels) of every pixel centre of the tile inside the grid extent -> float array [th, tw]"""
    x, y, z = coord
    rect = ref.tile_rect(x, y, z)
    res = ref.res[z]
    # exact offsets of the tile rectangle from the extent, in pixels
    left = float((rect[0] - ref.bbox[0]) / res)
    right = float((ref.bbox[2] - rect[0]) / res)
    top = float((ref.bbox[3] - rect[3]) / res)
    bottom = float((rect[3] - ref.bbox[1]) / res)
    cx = np.arange(tw) + 0.5
    cy = np.arange(th) + 0.5
    dx = np.minimum(left + cx, right - cx)
    dy = np.minimum(top + cy, bottom - cy)
    return np.minimum(dx[None, :], dy[:, None])


class TileJudge(object):
    """Judges decoded tile images of one grid / ground against the reference rendering; memoises by content."""

    def __init__(self, ref, ground, transparent):
        self.ref = ref
        self.ground = ground
        self.transparent = transparent
        self._f = {}
        self._seen = {}

    def reference(self, coord):
        f = self._f.get(coord)
        if f is None:
            bbox = tuple(float(v) for v in self.ref.tile_rect(*coord))
            xx, yy = self.ground.pixel_centres(bbox, (self.ref.tw, self.ref.th))
            f = self.ground.F(xx, yy)
            self._f[coord] = f
        return f

    def judge(self, coord, data, exact):
        """-> None or (kind, message); kind in 'undecodable' 'size' 'mode' 'background' 'not-identical' 'displaced'"""
        key = (coord, hashlib.sha1(data).digest(), bool(exact))
        if key in self._seen:
            return self._seen[key]
        res = self._judge(coord, data, exact)
        self._seen[key] = res
        return res

    def _judge(self, coord, data, exact):
        ref = self.ref
        tw, th = ref.tw, ref.th
        try:
            arr, mode = decode_rgba(data)
        except Exception as e:  # stored bytes are not an image
            return ('undecodable', 'stored bytes of %r are not a decodable image: %r' % (coord, e))
        if arr.shape[:2] != (th, tw):
            return ('size', 'stored tile %r has size %r, tile size is %r' % (coord, arr.shape[1::-1], (tw, th)))
        depth = inside_depth(ref, coord, tw, th)
        deep = depth >= 1.5
        # (b) background: transparent or pure white pixels more than one pixel inside the extent
        bg = ((arr[..., 3] < 255) | ((arr[..., 0] == 255) & (arr[..., 1] == 255) & (arr[..., 2] == 255))) & deep
        if bg.any():
            yy, xx = np.nonzero(bg)
            return ('background', 'tile %r: %d pixels more than one pixel inside the grid extent are background, e.g. '
                    'pixel (%d, %d) = %r, %.1f px inside' % (coord, int(bg.sum()), xx[0], yy[0],
                                                             arr[yy[0], xx[0]].tolist(), float(depth[yy[0], xx[0]])))
        f = self.reference(coord)
        if exact:
            inside = depth >= 0.5 - 1e-6
            err = np.abs(arr[..., :3].astype(float) - f).max(axis=2)
            bad = (err > 0.5 + TIE_TOL) & inside
            if bad.any():
                yy, xx = np.nonzero(bad)
                k = int(np.argmax(np.where(bad, err, 0)))
                ky, kx = divmod(k, tw)
                return ('not-identical', 'tile %r: %d of %d pixels inside the grid extent differ from the rendering of '
                        'the tile\'s own bbox although no buffer is cut off; worst pixel (%d, %d) = %r, reference %r'
                        % (coord, int(bad.sum()), int(inside.sum()), kx, ky, arr[ky, kx, :3].tolist(),
                           np.rint(f[ky, kx]).astype(int).tolist()))
            return None
        yy, xx = np.nonzero(deep)
        if len(xx) > 1400:
            # deterministic thinning: a lattice plus the outermost judged rows / columns
            step = int(np.ceil(np.sqrt(len(xx) / 900.0)))
            keep = ((xx % step == step // 2) & (yy % step == step // 2)) | (depth[yy, xx] < 2.5) | \
                (xx == 0) | (yy == 0) | (xx == tw - 1) | (yy == th - 1)
            xx, yy = xx[keep], yy[keep]
        if len(xx) == 0:
            return None
        bbox = tuple(float(v) for v in ref.tile_rect(*coord))
        rej, worst = self.ground.check_pixels(arr, xx, yy, bbox, (tw, th), self.ground.srs, rho=RHO, eps=EPS)
        if len(rej):
            k = rej[int(np.argmax(worst[rej]))]
            return ('displaced', 'tile %r: %d of %d judged pixels do not show the ground within %.1f px; worst pixel '
                    '(%d, %d) = %r, reference %r (excess %.1f levels)'
                    % (coord, len(rej), len(xx), RHO, xx[k], yy[k], arr[yy[k], xx[k], :3].tolist(),
                       np.rint(f[yy[k], xx[k]]).astype(int).tolist(), float(worst[k])))
        return None


# ------------------------------------------------------------------------------------------------
# running one setting

def sig(*parts):
    return 'C04/' + '/'.join(parts)


def anchor_index(a, n):
    how, v = a
    if how == 'lo':
        return min(int(v), n - 1)
    if how == 'hi':
        return max(n - 1 - int(v), 0)
    return min(int(float(v) * n), n - 1)


def resolve_requests(grid, ref, reqs, lp, st_):
    """request descriptions -> list of (kind, [coords incl. None]) (the same for every setting)"""
    from mapproxy.grid import GridError, NoTiles
    out = []
    z = max(0, grid.levels - 1 - lp)
    for r in reqs:
        gx, gy = ref.grid_sizes[z]
        ix, iy = anchor_index(r['ax'], gx), anchor_index(r['ay'], gy)
        if r['kind'] == 'tile':
            out.append(('tile', [(ix, iy, z)]))
            continue
        sx, sy = ref.span(z)
        # rectangle in ground units; iy counts from the south edge of the extent here
        x0 = ref.bbox[0] + sx * (Fr(ix) + Fr(r['ox']))
        y0 = ref.bbox[1] + sy * (Fr(iy) + Fr(r['oy']))
        x1 = x0 + sx * Fr(r['w'])
        y1 = y0 + sy * Fr(r['h'])
        bbox = (float(x0), float(y0), float(x1), float(y1))
        size = (max(1, int(round(float((x1 - x0) / ref.res[z])))), max(1, int(round(float((y1 - y0) / ref.res[z])))))
        try:
            _, (nx, ny), it = grid.get_affected_tiles(bbox, size)
            if nx * ny > MAX_BLOCK:
                st_.excluded['block-over-%d-tiles' % MAX_BLOCK] += 1
                continue
            coords = list(it)
            if any(c is not None and c[2] != z for c in coords):
                st_.excluded['rectangle-resolved-to-other-level'] += 1
                continue
        except (NoTiles, GridError):
            st_.excluded['rectangle-without-tiles'] += 1
            continue
        if not any(c is not None for c in coords):
            st_.excluded['rectangle-without-tiles'] += 1
            continue
        out.append(('block', coords))
    return out


class Run(object):
    """Result of driving one setting: stored images per coordinate (every version), facts for classification."""

    def __init__(self):
        self.stored = {}      # coord -> list of (data, exact, trunc, unit kind)
        self.facts = set()
        self.violation = None


RACE_WAIT = 300.0


def race_episode(grid, ref, setting, mgr, cache, log, case, z, run, cached, fail, st_):
    """Forced interleaving of two requests on one TileManager (shared MetaGrid): request T1 asks for a tile block
    that straddles the border between two meta tiles A | B and is suspended once inside MetaGrid.meta_tile() (at its
    first grid.tile_bbox call there, through a wrapper on this grid instance only); meanwhile request T2 asks for
    T1's second tile (which lies in B) and runs to completion; then T1 resumes.  Both must end with every requested
    tile served with the image that is in the cache; the stored images go through the pixel oracle with the others.
    The waits are bounded (RACE_WAIT); running into a bound is counted as inconclusive, never judged.
    Returns None (nothing wrong / not applicable) or the Run with a violation."""
    import sys
    from mapproxy.grid import GridError, NoTiles
    spec = case['race']
    gx, gy = ref.grid_sizes[z]
    m = (min(setting['meta_size'][0], gx), min(setting['meta_size'][1], gy))
    if gx <= m[0]:
        st_.notes['race:level-has-one-meta-column'] += 1
        return None
    ix, iy = anchor_index(spec['ax'], gx), anchor_index(spec['ay'], gy)
    col = max(1, ix // m[0]) * m[0]          # first column of a meta tile; col - 1 belongs to its western neighbour
    sx, sy = ref.span(z)
    x0 = ref.bbox[0] + sx * (Fr(col) - Fr(3, 4))
    x1 = x0 + sx * Fr(3, 2)
    y0 = ref.bbox[1] + sy * (Fr(iy) + Fr(1, 4))
    y1 = y0 + sy * Fr(spec['h'])
    bbox = (float(x0), float(y0), float(x1), float(y1))
    size = (max(1, int(round(float((x1 - x0) / ref.res[z])))), max(1, int(round(float((y1 - y0) / ref.res[z])))))
    try:
        _, (nx, ny), it = grid.get_affected_tiles(bbox, size)
        coords = list(it) if nx * ny <= MAX_BLOCK else []
    except (NoTiles, GridError):
        coords = []
    want = [c for c in coords if c is not None]
    if len(want) < 2 or any(c[2] != z for c in want) or \
            (want[0][0] // m[0], want[0][1] // m[1]) == (want[1][0] // m[0], want[1][1] // m[1]):
        st_.notes['race:block-does-not-straddle'] += 1
        return None

    t1_in, t1_go = threading.Event(), threading.Event()
    state = {'t1': None, 'done': False}
    orig = grid.tile_bbox

    def hooked(tile_coord, limit=False):
        if not state['done'] and threading.current_thread() is state['t1']:
            f, depth = sys._getframe(1), 0
            while f is not None and depth < 8:
                if f.f_code.co_name == 'meta_tile':
                    state['done'] = True
                    t1_in.set()
                    t1_go.wait(RACE_WAIT)
                    break
                f, depth = f.f_back, depth + 1
        return orig(tile_coord, limit)

    res = {}

    def worker(name, fn):
        try:
            with mgr.session():
                res[name] = ('ok', fn())
        except Exception as e:
            res[name] = ('exc', e)

    t1 = threading.Thread(target=worker, args=('T1', lambda: list(mgr.load_tile_coords(list(coords)))), daemon=True)
    t2 = threading.Thread(target=worker, args=('T2', lambda: [mgr.load_tile_coord(want[1])]), daemon=True)
    state['t1'] = t1
    grid.tile_bbox = hooked
    try:
        t1.start()
        reached = t1_in.wait(RACE_WAIT)
        if reached:
            t2.start()
            t2.join(RACE_WAIT)
        t1_go.set()
        t1.join(RACE_WAIT)
        if reached:
            t2.join(RACE_WAIT)
        if t1.is_alive() or t2.is_alive():
            raise core.HarnessError('race episode: request thread did not finish')
    finally:
        t1_go.set()
        del grid.tile_bbox
        join_workers()
    if not reached:
        st_.inconclusive['race:suspension-point-not-reached'] += 1
    else:
        run.facts.add('race-episode')
    events = log.cut()
    for name, req in (('T1', coords), ('T2', [want[1]])):
        if name not in res:
            continue
        kind, val = res[name]
        if kind == 'exc':
            if raised_in_harness(val):
                raise val
            return fail('race/exception/' + type(val).__name__, 'interleaved request %s for %r raised %s: %s'
                        % (name, req[:4], type(val).__name__, val))
        for c, t in zip(req, val):
            if c is None:
                continue
            if t.coord != c or t.source is None:
                return fail('race/served-missing', 'interleaved request %s (T1 asks for %r and is suspended in meta_tile() '
                            'while T2 creates %r): requested tile %r is served without image'
                            % (name, want[:4], want[1], c))
            buf = t.source.as_buffer(mgr.image_opts, seekable=True)
            buf.seek(0)
            sbytes, cbytes = buf.read(), cache.data.get(c)
            if sbytes != cbytes:
                a, _ = decode_rgba(sbytes)
                b = decode_rgba(cbytes)[0] if cbytes else None
                if b is None or a.shape != b.shape or not (a == b).all():
                    return fail('race/served-differs-from-stored', 'interleaved request %s: tile %r served differs from '
                                'the stored image' % (name, c))
    for e in events:
        if e[0] != 'store' or not e[2]:
            continue
        got = frozenset(c for c, _ in e[2])
        trunc = truncation(ref, got, setting['meta_buffer'])
        for c, data in e[2]:
            run.stored.setdefault(c, []).append((data, not trunc, trunc, 'regular'))
        cached |= got
    return None


def run_setting(grid, ref, setting, ground, transparent, resolved, judge, case, si, st_, z=0):
    import logging
    lg = logging.getLogger('mapproxy')
    if not any(isinstance(h, logging.NullHandler) for h in lg.handlers):
        lg.addHandler(logging.NullHandler())
    run = Run()
    log = EventLog()
    lock_dir = tempfile.mkdtemp(prefix='c04lock') if setting['locker'] == 'file' else None
    mode = effective_mode(setting)
    tag = mode + ('-minimized' if (mode != 'single' and setting['minimize']) else '')

    def fail(kind, msg):
        run.violation = core.Violation(sig(kind, tag), 'setting %d (%s): %s' % (si, tag, msg), case)
        return run

    try:
        cov = None
        if setting['source'] == 'tiled' and setting.get('coverage'):
            gx, gy = ref.grid_sizes[z]
            r0 = case['requests'][0]
            cov = SourceCoverage(ref, z, (anchor_index(r0['ax'], gx), anchor_index(r0['ay'], gy)), setting['coverage'])
            run.facts.add('source-coverage:' + setting['coverage']['shape'])
        mgr, cache = build_manager(grid, ref, setting, ground, transparent, log, lock_dir,
                                   coverage=cov.mp if cov else None)
        cached = set()
        if si == 0 and case.get('race') and mode == 'meta' and not setting['minimize']:
            if race_episode(grid, ref, setting, mgr, cache, log, case, z, run, cached, fail, st_) is not None:
                return run
        for ri, (kind, coords) in enumerate(resolved):
            units = plan_request(ref, setting, coords, cached, cov)
            try:
                with mgr.session():
                    if kind == 'tile':
                        served = [mgr.load_tile_coord(coords[0])]
                    else:
                        served = list(mgr.load_tile_coords(list(coords)))
            except Exception as e:
                if raised_in_harness(e):
                    raise
                n_req = len([c for c in coords if c is not None])
                return fail('exception/' + type(e).__name__,
                            'request %d for %d tile(s) %r raised %s: %s' % (ri, n_req, coords[:4], type(e).__name__, e))
            finally:
                join_workers()
            events = log.cut()
            gets = [e for e in events if e[0] == 'get']
            stores = [e for e in events if e[0] == 'store']

            # (d) upstream / store log against the plan
            want_gets = sum(u['gets'] for u in units)
            if len(gets) != want_gets:
                what = 'duplicate-or-extra-upstream-request' if len(gets) > want_gets else 'missing-upstream-request'
                if len(gets) < want_gets and mode == 'meta' and colliding_units(ref, setting, units):
                    a, b = colliding_units(ref, setting, units)
                    run.violation = core.Violation(
                        SIG_SAME_BBOX, 'setting %d (%s): request %d: %d upstream requests for %d meta tiles; the meta tiles '
                        '%r and %r have the same buffered bbox after clipping to the grid extent and only one is created'
                        % (si, tag, ri, len(gets), len(units), sorted(a['tiles']), sorted(b['tiles'])), case)
                    return run
                return fail(what, 'request %d: %d upstream requests, plan has %d for %d meta tile(s) (%s)'
                            % (ri, len(gets), want_gets, len(units), [sorted(u['tiles']) for u in units][:3]))
            open_units = list(units)
            for e in stores:
                got = frozenset(c for c, _ in e[2])
                if len(got) != len(e[2]):
                    return fail('tile-stored-twice-in-one-call', 'request %d: %r' % (ri, sorted(c for c, _ in e[2])))
                match = [u for u in open_units if u['tiles'] == got]
                if not match:
                    sup = [u for u in open_units if got < u['tiles']]
                    if sup:
                        return fail('store-incomplete', 'request %d: the store call after the upstream request holds %r, '
                                    'the meta tile has the in-grid tiles %r' % (ri, sorted(got), sorted(sup[0]['tiles'])))
                    return fail('store-unexpected', 'request %d: store call with %r matches no meta tile of the plan %r'
                                % (ri, sorted(got), [sorted(u['tiles']) for u in open_units][:3]))
                u = match[0]
                open_units.remove(u)
                if u['kind'] in ('regular', 'minimal', 'single'):
                    # the upstream request that precedes this store in the same thread must cover its tiles
                    pos = events.index(e)
                    prev = [x for x in events[:pos] if x[1] == e[1]]
                    if not prev or prev[-1][0] != 'get':
                        return fail('store-without-own-upstream-request', 'request %d: store of %r is not preceded by an '
                                    'upstream request of the same creator' % (ri, sorted(got)))
                trunc = truncation(ref, u['tiles'], setting['meta_buffer'] if mode == 'meta' else 0)
                exact = not trunc
                for c, data in e[2]:
                    run.stored.setdefault(c, []).append((data, exact, trunc, u['kind']))
                cached |= u['tiles']
                # facts for the non-trivial rule
                uz = u['z']
                if u.get('partly-covered'):
                    run.facts.add('bulk-meta-tile-partly-covered')
                if trunc:
                    run.facts.add('truncated')
                    run.facts.add('truncated-sides:%d' % len(trunc))
                    for side in trunc:
                        run.facts.add('truncated-' + side)
                elif mode == 'meta' and setting['meta_buffer'] > 0:
                    run.facts.add('exact-with-buffer:' + u['kind'])
                elif mode == 'meta' and len(u['tiles']) > 1:
                    run.facts.add('exact-without-buffer:' + u['kind'])
                if mode != 'single' and (setting['meta_size'][0] > ref.grid_sizes[uz][0] or
                                         setting['meta_size'][1] > ref.grid_sizes[uz][1]):
                    run.facts.add('meta-size-clipped')
                if u['kind'] == 'minimal':
                    gx, gy = ref.grid_sizes[uz]
                    m = (min(setting['meta_size'][0], gx), min(setting['meta_size'][1], gy))
                    c0 = min(u['tiles'])
                    if u['tiles'] != block_tiles(ref, uz, c0[0] // m[0], c0[1] // m[1], m):
                        run.facts.add('minimal-differs')
                run.facts.add('unit:' + u['kind'])
                run.facts.add('exact' if exact else 'within-1px')
            if open_units:
                return fail('store-missing', 'request %d: no store call for the meta tile(s) %r'
                            % (ri, [sorted(u['tiles']) for u in open_units][:3]))

            # served tiles: every requested in-grid tile is served with the image that is in the cache
            if len(served) != len(coords):
                return fail('served-count', 'request %d: %d tiles served for %d requested' % (ri, len(served), len(coords)))
            for c, t in zip(coords, served):
                if c is None:
                    if t.source is not None:
                        return fail('served-for-none', 'request %d: a None entry was served an image' % ri)
                    continue
                if cov is not None and not cov.has_data(c):
                    run.facts.add('requested-tile-without-data')
                    if t.source is not None or c in cache.data:
                        return fail('image-for-tile-without-data', 'request %d: the source coverage has no data for tile %r, '
                                    'but an image is %s for it' % (ri, c, 'served' if t.source is not None else 'stored'))
                    continue
                if t.coord != c or t.source is None:
                    return fail('served-missing', 'request %d: requested tile %r served as %r without image' % (ri, c, t.coord))
                sdata = t.source.as_buffer(mgr.image_opts, seekable=True)
                sdata.seek(0)
                sbytes = sdata.read()
                cbytes = cache.data.get(c)
                if sbytes != cbytes:
                    a, _ = decode_rgba(sbytes)
                    b, _ = decode_rgba(cbytes) if cbytes else (None, None)
                    if b is None or a.shape != b.shape or not (a == b).all():
                        return fail('served-differs-from-stored', 'request %d: tile %r served differs from the stored image'
                                    % (ri, c))
        # (a), (b) every stored image
        for c in sorted(run.stored):
            for data, exact, trunc, ukind in run.stored[c]:
                res = judge.judge(c, data, exact)
                if res is not None:
                    kind, msg = res
                    where = 'truncated' if trunc else 'untruncated'
                    run.violation = core.Violation(sig(kind, ukind, where), 'setting %d (%s)%s: %s'
                                                   % (si, tag, (', buffer cut off on sides ' + trunc) if trunc else '', msg),
                                                   case)
                    return run
        return run
    finally:
        if lock_dir is not None:
            shutil.rmtree(lock_dir, ignore_errors=True)


def normalise(case):
    case = dict(case)
    g = dict(case['grid'])
    g['bbox'] = tuple(float(v) for v in g['bbox'])
    g['tile_size'] = tuple(int(v) for v in g['tile_size'])
    case['grid'] = g
    reqs = []
    for r in case['requests']:
        r = dict(r)
        r['ax'] = tuple(r['ax'])
        r['ay'] = tuple(r['ay'])
        reqs.append(r)
    case['requests'] = reqs
    return case


def check_case(case, st_, exclude_known=True):
    try:
        grid = build_grid(case['grid'])
    except (ValueError, AssertionError, ZeroDivisionError, IndexError, OverflowError):
        st_.excluded['grid-rejected-by-config'] += 1
        return None
    if not meaningful(grid):
        st_.excluded['outside-meaningful-range'] += 1
        return None
    ref = RefGrid.from_grid(grid)
    if any(s['source'] == 'tiled' for s in case['settings']):
        # a TiledSource finds the tile of a query through grid.closest_level(resolution of the query); levels closer
        # together than the stretch factor cannot be told apart that way (level selection is C03 / C02 matter)
        res = list(grid.resolutions)
        if any(grid.closest_level(r) != i for i, r in enumerate(res)) or \
                any(a / b <= grid.stretch_factor * 1.001 for a, b in zip(res, res[1:])):
            st_.excluded['tiled-source-level-ambiguous'] += 1
            return None
    resolved = resolve_requests(grid, ref, case['requests'], case['lp'], st_)
    if not resolved:
        st_.excluded['no-request-left'] += 1
        return None
    open_sigs = core.open_signatures(PROPERTY) if exclude_known else set()
    for setting in case['settings']:
        for s in known_construct(ref, setting, resolved) & open_sigs:
            st_.excluded['known-finding:' + s] += 1
            return None
    z0 = next(c for c in resolved[0][1] if c is not None)[2]
    ground = Ground('EPSG:3857', r0=float(ref.res[z0]), period_px=case['period_px'],
                    x0=float(ref.bbox[0]), y0=float(ref.bbox[1]))
    judge = TileJudge(ref, ground, case['transparent'])
    runs = []
    violation = None
    for si, setting in enumerate(case['settings']):
        try:
            run = run_setting(grid, ref, setting, ground, case['transparent'], resolved, judge, case, si, st_, z=z0)
        except Ambiguous:
            st_.excluded['tile-on-source-coverage-border'] += 1
            return None
        runs.append(run)
        if run.violation is not None:
            violation = run.violation
            break

    # (c) differential: same tile under the two settings
    n_diff = 0
    if violation is None and len(runs) == 2:
        a, b = runs
        for c in sorted(set(a.stored) & set(b.stored)):
            for da, ea, ta, ka in a.stored[c]:
                for db, eb, tb, kb in b.stored[c]:
                    if not (ea and eb):
                        continue   # each was judged within 1 px of the same reference
                    n_diff += 1
                    if da == db:
                        continue
                    pa, _ = decode_rgba(da)
                    pb, _ = decode_rgba(db)
                    diff = (pa != pb).any(axis=2) & (inside_depth(ref, c, ref.tw, ref.th) >= 0.5 - 1e-6)
                    if diff.any():
                        f = judge.reference(c)
                        frac = np.abs(f - np.floor(f) - 0.5).min(axis=2)
                        real = diff & ~((frac <= TIE_TOL) & (np.abs(pa[..., :3].astype(int) - pb[..., :3]).max(axis=2) <= 1)
                                        & (pa[..., 3] == pb[..., 3]))
                        if real.any():
                            yy, xx = np.nonzero(real)
                            violation = core.Violation(
                                sig('differential', ka + '-vs-' + kb),
                                'tile %r differs between setting 0 (%s) and setting 1 (%s) on %d pixels inside the extent, '
                                'e.g. (%d, %d): %r vs %r' % (c, ka, kb, int(real.sum()), xx[0], yy[0],
                                                             pa[yy[0], xx[0]].tolist(), pb[yy[0], xx[0]].tolist()), case)
                            break
                if violation:
                    break
            if violation:
                break

    facts = set()
    for r in runs:
        facts |= r.facts
    if any(c is None for _, coords in resolved for c in coords):
        facts.add('block-with-none')
    nt = facts & {'truncated', 'meta-size-clipped', 'minimal-differs', 'block-with-none', 'bulk-meta-tile-partly-covered',
                  'race-episode'}
    classes = ['fact:' + f for f in sorted(facts)]
    classes += ['mode:' + effective_mode(s) for s in case['settings']]
    classes += ['origin:' + case['grid']['origin'], 'transparent:%s' % case['transparent']]
    classes += ['request:' + k for k, _ in resolved]
    if any(s['creators'] > 1 for s in case['settings']):
        classes.append('threaded')
    if any(s['locker'] == 'file' for s in case['settings']):
        classes.append('file-locker')
    if n_diff:
        classes.append('differential-exact-pair')
    st_.notes['stored-images-judged'] += sum(len(v) for r in runs for v in r.stored.values())
    st_.notes['differential-pairs'] += n_diff
    st_.case(key=case, nontrivial=bool(nt), classes=classes, sample=case)
    return violation


SHRINK_BUDGET = 150


def bounded_check(ignored):
    """check_case with a bounded shrink effort: after the first violation of a search, at most SHRINK_BUDGET further
    cases are executed; later unseen cases count as passing (so the shrinker stops), already seen failing cases keep
    their verdict (so the final replay of the minimal case is stable).  Purely count-based, hence deterministic."""
    state = {'failed': {}, 'after': 0}

    def fn(case, st_):
        h = core.case_hash(case)
        if h in state['failed']:
            return state['failed'][h]
        if state['failed']:
            if state['after'] >= SHRINK_BUDGET:
                st_.notes['shrink-budget-cutoff'] += 1
                return None
            state['after'] += 1
        v = check_case(case, st_)
        if v is not None and v.signature in ignored:
            v = None
        if v is not None:
            state['failed'][h] = v
        return v
    return fn


def random_shard(shard, nshards, seed, tier):
    st_ = core.Stats()
    n = (6400 if tier == 'quick' else 240000) // nshards
    ignored = set()
    for _ in range(3):   # one search per root-cause signature, like core.hyp_search, but each with a bounded shrink
        before = len(st_.violations)
        core.hyp_search(cases(), bounded_check(ignored), st_, max_examples=n, seed=seed, max_signatures=1)
        new = st_.violations[before:]
        if not new:
            break
        ignored |= set(v.signature for v in new)
    return st_


def run(tier, seed, stats):
    stats.merge(core.parallel(random_shard, 16, seed, tier))


def replay(case, stats):
    # regression cases of open findings must keep demonstrating them: no exclusion by construction here
    v = check_case(normalise(case), stats, exclude_known=False)
    return [v] if v else []
