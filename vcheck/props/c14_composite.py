"""C14 - Layers composite in order with correct alpha; shortcuts never change the picture.

A generated MapProxy configuration holds up to six direct (uncached) WMS sources on two synthetic upstream
hosts, arranged in WMS layers (1-3 sources each, optionally wrapped in a group layer).  Every upstream layer
is an analytic RGBA field (smooth colour, binary stripe/checker holes or soft alpha, flat cells around a
colour key, chosen hidden colour under transparent pixels) that the synthetic server delivers as RGB, RGBA,
paletted PNG with transparency index or RGB PNG with a tRNS colour key.  A request LAYERS=a,b to the
synthetic server is answered with the server's own `over` composite of a and b, as a real WMS does.

Every GetMap request (1-5 layers in any order, transparent flag, bgcolor, png/jpeg) is compared with an
independent float compositor that ALWAYS performs the full, unoptimised composition of the individual
layer images (documented meaning of opacity / transparent / transparent_color(+tolerance) / coverage with
and without clip / min_res / max_res), so opaque-layer pruning, the single-layer fast path and combined
upstream requests are all compared against the composition without shortcuts.
See DESIGN.md section 15.
"""
import os
import shutil
import tempfile

import numpy as np
from hypothesis import strategies as st

from .. import core
from .. import ground

PROPERTY = 'C14'
LEVEL = 'exploration'
RULE = ('Hypothesis-generated configurations of 1-6 direct WMS sources (2 upstream hosts; per source: transparent, '
        'opacity incl. 0 and 1, transparent_color+tolerance, shared bbox/polygon coverages with/without clip, '
        'min_res/max_res) in WMS layers of 1-3 sources (+ optional group layer, layer-level res range; '
        'services.wms.on_source_errors raise / notify / absent; in a third of the configurations services.wms.bbox_srs '
        'with an explicit extent whose edges run through a coverage, half of whose requests reach 25-70 % beyond it) x 3-7 GetMap '
        'requests each (ordered subset of 1-5 layers, transparent flag, bgcolor, png/jpeg, 4 resolutions, window anchored on coverage edges / inside coverages / free). Upstream '
        'layer images: analytic RGBA fields (opaque, stripe/checker holes, soft alpha, colour-key cells, hidden '
        'colours) delivered as RGB/RGBA/P+transparency index/RGB+tRNS; LAYERS=a,b answered with the server-side '
        'composite. One evaluation = one request compared pixel-wise with the full float composition. Non-trivial = '
        '>= 2 layer images in range and (an upper one semi-transparent, faded or clipped inside the window, or an '
        'opaque one above others, or an adjacent combinable same-URL pair); distinct = distinct (resolved source '
        'stack, request options).')
ASSUMPTIONS = [
    'image.paletted: false and req.format image/png for every source (lossless upstream images)',
    'reference = straight-alpha float `over`, opacity multiplies alpha, transparent_color makes |c-key|<=tol fully '
    'transparent, clip=true hides everything outside the coverage, without clip everything outside the coverage '
    'bbox is transparent and the part inside the bbox but outside the polygon is not judged (doc: "tries to serve the full image")',
    'tolerance 2 levels per composited layer image (premultiplied for RGBA results); JPEG: + 10 + the range of the reference within 17 px, pixels with a range > 8 not judged',
    'not judged: pixels within 1.1 px of a coverage edge; pixels where a sub-requested (coverage-limited, hence up to '
    '1 px displaced) image varies by more than 3 levels within +-1 px or has a hole/cell edge within 1.5 px; for '
    'TRANSPARENT=TRUE + JPEG the pixels that are not opaque in the reference',
    'a request that renders exactly one layer image with opacity < 1 may show it faded against the background or unchanged '
    '(doc: opacity "only effects when multiple layers are merged")',
    'services.wms.bbox_srs with an explicit bbox: beyond that extent the answer is background (bgcolor, or fully transparent '
    'even for TRANSPARENT=FALSE - MapProxy pastes the rendered part on a transparent canvas and with image.paletted false '
    'the alpha survives); pixels within 4.05 px of the extent edge are not judged; inside, every layer image may be displaced '
    'by 1.05 px (own pixel grid of the limited request), so the displacement/edge bands above are widened by 1.05 px',
    'a source declared `transparent: false` that can be merged with its lower neighbour into one upstream request has '
    'no empty areas (a WMS answers TRANSPARENT=FALSE&LAYERS=a,b with b drawn over a, not with b flattened on white)',
]

SRS = 'EPSG:3857'
CANVAS = 2560.0
HOSTS = ['wmsa.test', 'wmsb.test']
HIDDEN = {'black': (0.0, 0.0, 0.0), 'white': (255.0, 255.0, 255.0), 'odd': (0.0, 255.0, 0.0)}
TRNS_KEY = (1, 2, 3)
RES = [5.0, 10.0, 20.0, 40.0]
RANGES = [[14.0, None], [None, 14.0], [28.0, 7.0], [7.0, None], [None, 28.0]]  # [min_res (coarsest), max_res (finest, exclusive)]

SIG_BLEND = 'C14/merge/opaque-result/blend-ignores-layer-alpha'
SIG_OPZERO = 'C14/prune/opacity-zero-counts-as-opaque'
SIG_COMBRANGE = 'C14/combined/source-outside-res-range-requested'
SIG_COMBKEY = 'C14/combined/transparent_color-keyed-after-server-side-merge'
SIG_BBOXCLIP = 'C14/clip/bbox-coverage/internal-error'
SIG_GROUPRANGE = 'C14/group/child-layer-res-range-ignored'
SIG_TRNSKEY = 'C14/colour-key/trns-transparency-lost-in-make_transparent'


# ------------------------------------------------------------------------------------------------
# analytic layer fields (shared by the synthetic server and - per individual layer - by the reference)

def _frac(t):
    return t - np.floor(t)


def centres(bbox, size):
    w, h = size
    xs = bbox[0] + (np.arange(w) + 0.5) * ((bbox[2] - bbox[0]) / w)
    ys = bbox[3] - (np.arange(h) + 0.5) * ((bbox[3] - bbox[1]) / h)
    return np.meshgrid(xs, ys)


def field_rgba(f, X, Y):
    """Inherent content of one upstream layer at ground points: float [..., 4], integer valued, straight alpha."""
    u = X / CANVAS
    v = Y / CANVAS
    rgb = np.stack([f['base'][c] + f['gx'][c] * u + f['gy'][c] * v for c in range(3)], axis=-1)
    rgb = np.clip(rgb, 40.0, 210.0)
    if f['poster']:
        rgb = np.rint(rgb / 51.0) * 51.0
    rgb = np.rint(rgb)
    al = f['alpha']
    kind = al[0]
    if kind == 'stripes':
        _, p, duty, dx, dy, ph = al
        a = np.where(_frac((X * dx + Y * dy) / p + ph) < duty, 0.0, 255.0)
    elif kind == 'checker':
        _, p, duty, ph = al
        a = np.where((_frac(X / p + ph) < duty) & (_frac(Y / p + ph) < duty), 0.0, 255.0)
    elif kind == 'soft':
        _, p, lo, hi, dx, dy = al
        a = np.rint(lo + (hi - lo) * ground.tri((X * dx + Y * dy) / p))
    else:
        a = np.full(X.shape, 255.0)
    cells = f.get('cells')
    if cells:
        p, duty, cols = cells
        inside = (_frac(X / p) < duty) & (_frac(Y / p) < duty)
        idx = (np.floor(X / p) + 3 * np.floor(Y / p)).astype(int) % len(cols)
        cols = np.asarray(cols, dtype=float)
        rgb = np.where(inside[..., None], cols[idx], rgb)
        a = np.where(inside, 255.0, a)
    if f['hidden'] != 'keep':
        rgb = np.where((a == 0)[..., None], np.asarray(HIDDEN[f['hidden']]), rgb)
    return np.concatenate([rgb, a[..., None]], axis=-1)


def near_discontinuity(f, X, Y, r):
    """True where a jump of the field (stripe / checker / cell edge) lies within r ground units (superset)."""
    def lines(t, period, marks):
        ft = _frac(t)
        d = np.minimum(ft, 1.0 - ft)
        for mk in marks:
            d = np.minimum(d, np.abs(ft - mk))
        return d * period
    near = np.zeros(X.shape, bool)
    al = f['alpha']
    if al[0] == 'stripes':
        _, p, duty, dx, dy, ph = al
        near |= lines((X * dx + Y * dy) / p + ph, p / np.hypot(dx, dy), [duty]) <= r
    elif al[0] == 'checker':
        _, p, duty, ph = al
        near |= (lines(X / p + ph, p, [duty]) <= r) | (lines(Y / p + ph, p, [duty]) <= r)
    cells = f.get('cells')
    if cells:
        p, duty = cells[0], cells[1]
        near |= (lines(X / p, p, [duty]) <= r) | (lines(Y / p, p, [duty]) <= r)
    return near


def over(dst, src):
    """straight-alpha float `over`: src on top of dst; arrays [..., 4] with channels 0..255."""
    sa = src[..., 3:4] / 255.0
    da = dst[..., 3:4] / 255.0
    oa = sa + da * (1.0 - sa)
    num = src[..., :3] * sa + dst[..., :3] * da * (1.0 - sa)
    rgb = np.where(oa > 0, num / np.where(oa > 0, oa, 1.0), 0.0)
    return np.concatenate([rgb, oa * 255.0], axis=-1)


def flatten(img, bg=(255.0, 255.0, 255.0)):
    base = np.empty(img.shape)
    base[..., :3] = bg
    base[..., 3] = 255.0
    return over(base, img)


class FieldServer(object):
    """render_fn of one synthetic WMS host."""

    def __init__(self, fields, errors):
        self.fields = fields  # name -> field spec
        self.errors = errors  # harness problems inside the server must not be mistaken for a MapProxy error response

    def render(self, info):
        try:
            return self._render(info)
        except Exception as e:
            self.errors.append('%s: %r (request %r)' % (type(e).__name__, e, info))
            raise

    def _render(self, info):
        from PIL import Image
        X, Y = centres(info['bbox'], info['size'])
        fs = []
        for name in info['layers']:
            if name not in self.fields:
                raise core.HarnessError('upstream asked for unknown layer %r' % name)
            fs.append(self.fields[name])
        if not fs:
            raise core.HarnessError('upstream request without layers')
        img = field_rgba(fs[0], X, Y)
        for f in fs[1:]:
            img = np.rint(over(img, field_rgba(f, X, Y)))
        modes = set(f['deliver'] for f in fs)
        if not info['transparent']:
            rgb = np.rint(flatten(img))[..., :3].astype(np.uint8)
            if modes == {'p'}:
                return _to_p(rgb, None, None)
            return Image.fromarray(rgb, 'RGB')
        a = img[..., 3]
        rgb = img[..., :3].astype(np.uint8)
        binary = bool(np.all((a == 0) | (a == 255)))
        if modes == {'p'} and binary:
            hidden = fs[0]['hidden']
            p = _to_p(rgb, a == 0, HIDDEN.get(hidden, (7.0, 7.0, 7.0)))
            if p is not None:
                return p
        if modes == {'rgbkey'} and binary:
            rgb = np.where((a == 0)[..., None], np.asarray(TRNS_KEY, dtype=np.uint8), rgb)
            im = Image.fromarray(rgb.astype(np.uint8), 'RGB')
            im.info['transparency'] = TRNS_KEY
            return im
        if modes == {'rgb'} and bool(np.all(a == 255)):
            return Image.fromarray(rgb, 'RGB')
        return Image.fromarray(np.concatenate([rgb, a[..., None].astype(np.uint8)], axis=-1), 'RGBA')


def _to_p(rgb, transparent_mask, transparent_colour):
    from PIL import Image
    flat = rgb.reshape(-1, 3)
    cols, inv = np.unique(flat, axis=0, return_inverse=True)
    inv = inv.reshape(rgb.shape[:2])
    n = len(cols)
    if n > 250:
        return None if transparent_mask is not None else Image.fromarray(rgb, 'RGB')
    pal = [int(v) for v in cols.reshape(-1)]
    idx = inv.astype(np.uint8)
    tindex = None
    if transparent_mask is not None and transparent_mask.any():
        tindex = n
        pal += [int(v) for v in transparent_colour]
        idx = np.where(transparent_mask, np.uint8(tindex), idx).astype(np.uint8)
    im = Image.fromarray(idx, 'P')
    im.putpalette(pal + [0] * (768 - len(pal)))
    if tindex is not None:
        im.info['transparency'] = tindex
    return im


# ------------------------------------------------------------------------------------------------
# generators

UNIT_SHAPES = {
    'tri': ([(0.0, 0.0), (1.0, 0.2), (0.3, 1.0)], []),
    'quad': ([(0.1, 0.0), (1.0, 0.15), (0.85, 1.0), (0.0, 0.7)], []),
    'ell': ([(0.0, 0.0), (1.0, 0.0), (1.0, 0.4), (0.4, 0.4), (0.4, 1.0), (0.0, 1.0)], []),
    'ring': ([(0.0, 0.0), (1.0, 0.0), (1.0, 1.0), (0.0, 1.0)], [[(0.3, 0.3), (0.7, 0.3), (0.7, 0.7), (0.3, 0.7)]]),
}


@st.composite
def coverages(draw):
    cx = draw(st.integers(4, 12)) * 160.0 + draw(st.sampled_from([0.0, 0.0, 3.3, 77.7]))
    cy = draw(st.integers(4, 12)) * 160.0 + draw(st.sampled_from([0.0, 0.0, 1.7, 41.3]))
    size = draw(st.sampled_from([240.0, 480.0, 960.0, 1600.0]))
    kind = draw(st.sampled_from(['bbox', 'bbox', 'tri', 'quad', 'ell', 'ring']))
    if kind == 'bbox':
        asp = draw(st.sampled_from([1.0, 0.6, 1.5]))
        return {'kind': 'bbox', 'bbox': [cx - size / 2, cy - size * asp / 2, cx + size / 2, cy + size * asp / 2]}
    ext, holes = UNIT_SHAPES[kind]
    rot = draw(st.sampled_from([0.0, 0.0, 0.3, 0.785, 1.9]))
    c, s = np.cos(rot), np.sin(rot)

    def tr(p):
        x, y = (p[0] - 0.5) * size, (p[1] - 0.5) * size
        return [round(float(cx + c * x - s * y), 3), round(float(cy + s * x + c * y), 3)]
    return {'kind': 'poly', 'shape': kind, 'ext': [tr(p) for p in ext], 'holes': [[tr(p) for p in h] for h in holes]}


@st.composite
def fields(draw, tc):
    poster_ok = True
    deliver = draw(st.sampled_from(['rgba', 'rgba', 'rgba', 'p', 'p', 'rgbkey', 'rgb']))
    if deliver == 'rgb':
        alpha = ['opaque']
    else:
        kinds = ['opaque', 'stripes', 'stripes', 'checker'] + (['soft', 'soft'] if deliver == 'rgba' else [])
        k = draw(st.sampled_from(kinds))
        if k == 'stripes':
            d = draw(st.sampled_from([(1.0, 0.0), (0.0, 1.0), (0.6, 0.8), (0.8, -0.6)]))
            alpha = ['stripes', draw(st.sampled_from([60.0, 130.0, 410.0, 1300.0])), draw(st.sampled_from([0.3, 0.5, 0.7])),
                     d[0], d[1], draw(st.sampled_from([0.0, 0.13, 0.5]))]
        elif k == 'checker':
            alpha = ['checker', draw(st.sampled_from([90.0, 250.0, 700.0])), draw(st.sampled_from([0.4, 0.6, 0.8])),
                     draw(st.sampled_from([0.0, 0.21]))]
        elif k == 'soft':
            d = draw(st.sampled_from([(1.0, 0.0), (0.0, 1.0), (0.6, 0.8)]))
            lo = draw(st.sampled_from([0, 0, 40, 128]))
            hi = draw(st.sampled_from([255, 255, 200]))
            alpha = ['soft', draw(st.sampled_from([400.0, 1600.0, 5000.0])), lo, hi, d[0], d[1]]
        else:
            alpha = ['opaque']
    f = {
        'base': [draw(st.integers(60, 190)) for _ in range(3)],
        'gx': [draw(st.integers(-40, 40)) for _ in range(3)],
        'gy': [draw(st.integers(-40, 40)) for _ in range(3)],
        'poster': deliver == 'p' and poster_ok,
        'alpha': alpha,
        'hidden': draw(st.sampled_from(['keep', 'black', 'white', 'odd', 'odd'])),
        'deliver': deliver,
    }
    if tc is not None:
        key, tol = tc[:3], tc[3]
        cols = []
        for d in (0, tol, tol + 1, tol, tol + 1):
            ch = draw(st.integers(0, 2))
            col = list(key)
            for c in range(3):
                delta = d if c == ch else min(d, tol)
                col[c] = key[c] - delta if key[c] - delta >= 0 else key[c] + delta
            cols.append(col)
        cols.append([min(255, key[0] + 0), max(0, key[1] - tol - 1), key[2]])
        f['cells'] = [draw(st.sampled_from([70.0, 220.0])), draw(st.sampled_from([0.35, 0.6])), cols]
    return f


@st.composite
def sources(draw, ncov):
    tc = None
    if draw(st.integers(0, 4)) == 0:
        key = draw(st.sampled_from([[255, 255, 255], [255, 255, 255], [204, 221, 238], [0, 0, 0]]))
        tc = key + [draw(st.sampled_from([0, 5, 20]))]
    transparent = draw(st.sampled_from([True, True, True, False, False]))
    s = {
        'host': draw(st.sampled_from([0, 0, 0, 1])),
        'transparent': transparent,
        'opacity': draw(st.sampled_from([None, None, None, None, None, None, None, None, 0.5, 0.3, 0.8, 1.0, 0.0])),
        'tc': tc,
        'cov': None,
        'range': None,
    }
    if ncov and draw(st.integers(0, 2)) == 0:
        s['cov'] = [draw(st.integers(0, ncov - 1)), draw(st.integers(0, 2)) > 0]
    if draw(st.integers(0, 3)) == 0:
        s['range'] = draw(st.sampled_from(RANGES))
    s['field'] = draw(fields(tc))
    return s


@st.composite
def requests(draw, names, ncov, near_sides=(), hint=None, must=None):
    n = min(draw(st.sampled_from([1, 1, 2, 2, 2, 3, 3, 4, 5])), len(names), 5)
    order = draw(st.permutations(names))
    kinds = ['free', 'free', 'edge', 'edge', 'inside'] if ncov else ['free']
    if near_sides:
        kinds = kinds + ['extent'] * len(kinds)      # half of the requests reach beyond the configured SRS extent
    kind = draw(st.sampled_from(kinds))
    if kind == 'extent':
        side = draw(st.sampled_from(list(near_sides)))
        along = draw(st.integers(3, 13)) * 160.0
        anchor = ['extent', side, along, draw(st.sampled_from([0.25, 0.5, 0.5, 0.7]))]
        if hint is not None and draw(st.integers(0, 3)) > 0:
            # centre the window where the edge of coverage `hint` crosses the middle of the part inside the extent
            anchor += [hint, draw(st.integers(0, 3))]
    elif kind == 'free':
        anchor = ['free', draw(st.integers(3, 13)) * 160.0, draw(st.integers(3, 13)) * 160.0]
    elif kind == 'edge':
        anchor = ['edge', draw(st.integers(0, ncov - 1)), draw(st.integers(0, 31)) / 32.0]
    else:
        anchor = ['inside', draw(st.integers(0, ncov - 1))]
    layers_ = list(order[:n])
    if kind == 'extent' and must is not None and must not in layers_ and draw(st.integers(0, 3)) > 0:
        layers_[draw(st.integers(0, len(layers_) - 1))] = must      # a layer that is clipped to the hinted coverage
    return {
        'layers': layers_,
        'transparent': draw(st.booleans()),
        'bgcolor': draw(st.sampled_from([[255, 255, 255], [255, 255, 255], [0, 0, 0], [30, 60, 200], [250, 240, 10]])),
        'format': draw(st.sampled_from(['png', 'png', 'png', 'png', 'jpeg'])),
        'anchor': anchor,
        'res': draw(st.sampled_from(RES)),
        'size': [draw(st.sampled_from([16, 24, 32, 40, 48])), draw(st.sampled_from([16, 24, 32, 40, 48]))],
        'jit': [draw(st.sampled_from([0.0, 0.0, 0.5, 0.37, -3.2, 7.0])), draw(st.sampled_from([0.0, 0.0, 0.5, 0.61, 2.9, -6.0]))],
    }


@st.composite
def cases(draw):
    # two renderer loops exist (on_source_errors raise / notify = default): half of the configurations each
    on_err = [None, 'notify', 'raise', 'raise'][draw(st.integers(0, 3))]
    ncov = draw(st.sampled_from([0, 1, 2, 2, 3]))
    covs = [draw(coverages()) for _ in range(ncov)]
    nsrc = draw(st.sampled_from([1, 2, 2, 3, 3, 4, 4, 5, 5, 6, 6]))
    srcs = [draw(sources(ncov)) for _ in range(nsrc)]
    if nsrc >= 2 and draw(st.booleans()):
        # make a combinable neighbour pair likely: same host, no opacity, same colour key, same coverage geometry
        i = draw(st.integers(0, nsrc - 2))
        a, b = srcs[i], srcs[i + 1]
        b['host'] = a['host']
        a['opacity'] = b['opacity'] = None
        if a['tc'] != b['tc']:
            a['tc'] = b['tc'] = None
            a['field'].pop('cells', None)
            b['field'].pop('cells', None)
        if a['cov'] is not None or b['cov'] is not None:
            if draw(st.booleans()) and a['cov'] is not None:
                b['cov'] = [a['cov'][0], b['cov'][1] if b['cov'] is not None else draw(st.booleans())]
            else:
                a['cov'] = b['cov'] = None
    layers = []
    i = 0
    while i < nsrc:
        k = draw(st.sampled_from([1, 1, 1, 2, 2, 3]))
        lay = {'sources': list(range(i, min(nsrc, i + k))), 'range': None}
        if draw(st.integers(0, 7)) == 0:
            lay['range'] = draw(st.sampled_from(RANGES))
        layers.append(lay)
        i += k
    multi = [lay for lay in layers if len(lay['sources']) >= 2]
    if multi and draw(st.integers(0, 4)) == 0:
        # a resolution-limited opaque base below an unlimited overlay from another server inside ONE layer: the layer
        # as a whole renders at every resolution, its opaque member only inside its range
        lay = multi[draw(st.integers(0, len(multi) - 1))]
        a, b = srcs[lay['sources'][0]], srcs[lay['sources'][1]]
        a.update({'transparent': False, 'tc': None, 'cov': None, 'opacity': None, 'range': draw(st.sampled_from(RANGES))})
        a['field'].pop('cells', None)
        b.update({'host': 1 - a['host'], 'range': None, 'transparent': True, 'opacity': None})
        if b['field']['alpha'][0] == 'opaque':
            b['field']['alpha'] = ['stripes', 130.0, 0.5, 0.6, 0.8, 0.13]
            if b['field']['deliver'] == 'rgb':
                b['field']['deliver'] = 'rgba'
        lay['range'] = None
    group = None
    if len(layers) >= 2 and draw(st.integers(0, 3)) == 0:
        a = draw(st.integers(0, len(layers) - 2))
        b = draw(st.integers(a + 1, len(layers) - 1))
        group = [a, b]
    names = []
    for li in range(len(layers)):
        if group and group[0] <= li <= group[1]:
            if li == group[0]:
                names.append('G')
                if draw(st.booleans()):
                    names.pop()
                    names.extend('L%d' % k for k in range(group[0], group[1] + 1))
        else:
            names.append('L%d' % li)
    # services.wms.bbox_srs with an explicit bbox for the request SRS: one or two sides of that extent cross the
    # canvas (preferably a few pixels beside a point on a coverage edge), the others are far away
    extent, near_sides, hint, must = None, [], None, None
    if draw(st.integers(0, 2)) == 0:
        far = 200000.0
        extent = [-far, -far, far, far]
        sx = draw(st.sampled_from([None, 0, 2, 0, 2]))
        sy = draw(st.sampled_from([None, 1, 3])) if sx is not None else draw(st.sampled_from([1, 3]))
        near_sides = [sd for sd in (sx, sy) if sd is not None]
        if ncov and draw(st.integers(0, 3)) > 0:
            clipped = sorted(set(s_['cov'][0] for s_ in srcs if s_['cov'] is not None and s_['cov'][1]))
            pick = clipped if clipped else list(range(ncov))      # prefer a coverage that some source is clipped to
            k_ = pick[draw(st.integers(0, len(pick) - 1))]
            g = cov_geom(covs[k_])
            hint = k_
            for li, lay in enumerate(layers):
                if any(srcs[i]['cov'] is not None and srcs[i]['cov'] == [k_, True] for i in lay['sources']):
                    nm = 'L%d' % li
                    must = nm if nm in names else ('G' if 'G' in names else None)
        for sd in near_sides:
            if hint is not None:
                # the extent edge runs through the coverage
                b_ = g.bounds
                lo, hi = b_[sd % 2], b_[sd % 2 + 2]
                extent[sd] = round(lo + draw(st.sampled_from([0.3, 0.5, 0.7])) * (hi - lo), 3)
            else:
                extent[sd] = draw(st.integers(4, 12)) * 160.0 + draw(st.sampled_from([0.0, 3.3]))
    nreq = draw(st.integers(3, 7))
    reqs = [draw(requests(names, ncov, near_sides, hint, must)) for _ in range(nreq)]
    return {'covs': covs, 'sources': srcs, 'layers': layers, 'group': group, 'requests': reqs,
            'extent': extent, 'on_err': on_err}


# ------------------------------------------------------------------------------------------------
# configuration

def _hex(c):
    return '#%02x%02x%02x' % tuple(int(v) for v in c[:3])


def cov_geom(c):
    from shapely.geometry import Polygon, box
    if c['kind'] == 'bbox':
        return box(*c['bbox'])
    return Polygon(c['ext'], c['holes'])


def build_conf(case, base_dir):
    srcs = {}
    for i, s in enumerate(case['sources']):
        d = {'type': 'wms',
             'req': {'url': 'http://%s/service?' % HOSTS[s['host']], 'layers': 'f%d' % i,
                     'transparent': bool(s['transparent']), 'format': 'image/png'}}
        image = {}
        if s['opacity'] is not None:
            image['opacity'] = s['opacity']
        if s['tc'] is not None:
            image['transparent_color'] = _hex(s['tc'])
            image['transparent_color_tolerance'] = s['tc'][3]
        if image:
            d['image'] = image
        if s['cov'] is not None:
            c = case['covs'][s['cov'][0]]
            if c['kind'] == 'bbox':
                d['coverage'] = {'bbox': list(c['bbox']), 'srs': SRS}
            else:
                path = os.path.join(base_dir, 'cov%d.wkt' % s['cov'][0])
                with open(path, 'w') as f:
                    f.write(cov_geom(c).wkt + '\n')
                d['coverage'] = {'datasource': path, 'srs': SRS}
            if s['cov'][1]:
                d['coverage']['clip'] = True
        if s['range'] is not None:
            if s['range'][0] is not None:
                d['min_res'] = s['range'][0]
            if s['range'][1] is not None:
                d['max_res'] = s['range'][1]
        srcs['s%d' % i] = d
    lays = []
    for li, lay in enumerate(case['layers']):
        d = {'name': 'L%d' % li, 'title': 'layer %d' % li, 'sources': ['s%d' % i for i in lay['sources']]}
        if lay['range'] is not None:
            if lay['range'][0] is not None:
                d['min_res'] = lay['range'][0]
            if lay['range'][1] is not None:
                d['max_res'] = lay['range'][1]
        lays.append(d)
    wms = {'srs': [SRS], 'image_formats': ['image/png', 'image/jpeg']}
    if case.get('on_err'):
        wms['on_source_errors'] = case['on_err']
    if case.get('extent') is not None:
        wms['bbox_srs'] = [{'srs': SRS, 'bbox': [float(v) for v in case['extent']]}]
    g = case.get('group')
    if g:
        lays = lays[:g[0]] + [{'name': 'G', 'title': 'group', 'layers': lays[g[0]:g[1] + 1]}] + lays[g[1] + 1:]
    return {
        'services': {'wms': wms},
        'layers': lays,
        'sources': srcs,
    }


# ------------------------------------------------------------------------------------------------
# reference

def in_range(rng, res):
    """doc (sources.rst): min_res is inclusive, max_res exclusive; requests never sit on a boundary."""
    if rng is None:
        return True
    lo_ok = rng[0] is None or res <= rng[0]
    hi_ok = rng[1] is None or res >= rng[1]
    return lo_ok and hi_ok


def hull_range(ranges):
    """MapProxy's implicit layer range (merge of the source ranges) - only used to decide whether an OPEN finding's
    construct is present, never by the reference picture."""
    if any(r is None for r in ranges):
        return None
    mins = [r[0] for r in ranges]
    maxs = [r[1] for r in ranges]
    return [None if any(m is None for m in mins) else max(mins), None if any(m is None for m in maxs) else min(maxs)]


def request_bbox(case, rq):
    w, h = rq['size']
    res = rq['res']
    a = rq['anchor']
    if a[0] == 'free':
        cx, cy = a[1], a[2]
    elif a[0] == 'extent':
        # ['extent', side 0..3 (x0, y0, x1, y1), coordinate along that side, fraction of the window beyond the extent]
        E = case['extent']
        side, along, f = a[1], a[2], a[3]
        span = (w if side in (0, 2) else h) * res
        inward = 1.0 if side in (0, 1) else -1.0
        c = E[side] + (0.5 - f) * span * inward
        if len(a) > 4:
            from shapely.geometry import LineString
            g = cov_geom(case['covs'][a[4]])
            mid = E[side] + (1.0 - f) * span / 2.0 * inward
            far = 1e6
            line = LineString([(mid, -far), (mid, far)] if side in (0, 2) else [(-far, mid), (far, mid)])
            hits = g.exterior.intersection(line)
            pts = [q for q in getattr(hits, 'geoms', [hits]) if q.geom_type == 'Point']
            if pts:
                vals = sorted(q.y if side in (0, 2) else q.x for q in pts)
                along = vals[a[5] % len(vals)]
        cx, cy = (c, along) if side in (0, 2) else (along, c)
    else:
        g = cov_geom(case['covs'][a[1]])
        if a[0] == 'edge':
            p = g.exterior.interpolate(a[2], normalized=True)
        else:
            p = g.representative_point()
        cx, cy = p.x, p.y
    cx += rq['jit'][0] * res
    cy += rq['jit'][1] * res
    x0 = round(cx - w * res / 2.0, 3)
    y0 = round(cy - h * res / 2.0, 3)
    return (x0, y0, x0 + w * res, y0 + h * res)


def expand_layers(case, names):
    """-> [(layer index, requested through the group layer)]"""
    out = []
    for n in names:
        if n == 'G':
            g = case['group']
            out.extend((i, True) for i in range(g[0], g[1] + 1))
        else:
            out.append((int(n[1:]), False))
    return out


class Entry(object):
    """one source of the request in render order, with its individual image prepared for the reference"""
    pass


def prepare_entries(case, rq, bbox):
    import shapely
    from shapely.geometry import box
    size = tuple(rq['size'])
    res = rq['res']
    X, Y = centres(bbox, size)
    qbox = box(*bbox)
    # services.wms.bbox_srs with an explicit bbox: a request that reaches beyond that extent is rendered for the part
    # inside only (own pixel grid: integer-truncated paste offset, up to 1 px displaced) and pasted on the background
    ext = {'limited': False, 'fully_outside': False, 'degenerate': False, 'outside': None, 'band': None}
    D = 0.0
    E = case.get('extent')
    if E is not None and not box(*E).contains(qbox):
        ebox = box(*E)
        ext['limited'] = True
        D = 1.05
        pts_ = shapely.points(X, Y)
        ext['outside'] = ~shapely.contains_xy(ebox, X, Y)
        ext['band'] = shapely.distance(ebox.boundary, pts_) / res <= 3.0 + D
        inter_ = ebox.intersection(qbox)
        if inter_.is_empty or inter_.area == 0.0:
            ext['fully_outside'] = True
        else:
            ib_ = inter_.bounds
            if ib_[2] - ib_[0] < 3.0 * res or ib_[3] - ib_[1] < 3.0 * res:
                ext['degenerate'] = True
            qbox = box(*ib_)     # what MapProxy asks its layers for
    entries = []
    for li, via_group in expand_layers(case, rq['layers']):
        lay = case['layers'][li]
        lay_ok = in_range(lay['range'], res)
        hull = lay['range'] if lay['range'] is not None else hull_range([case['sources'][i]['range'] for i in lay['sources']])
        for si in lay['sources']:
            s = case['sources'][si]
            e = Entry()
            e.si, e.li, e.s = si, li, s
            e.cov = None if s['cov'] is None else case['covs'][s['cov'][0]]
            e.name = 'f%d' % si
            e.visible = lay_ok and in_range(s['range'], res)
            e.via_group = via_group
            e.layer_in_range = lay_ok
            # may MapProxy hand this source to the renderer?  (only used to recognise constructs of open findings;
            # over-approximated for children of a requested group)
            e.layer_renders = via_group or (in_range(hull, res) and lay_ok)
            e.opacity = 1.0 if s['opacity'] is None else float(s['opacity'])
            e.dontcare = np.zeros(X.shape, bool)
            e.var = np.zeros(X.shape)
            e.certain = True       # certainly handed to the merger as an image (if visible)
            e.maybe = True         # possibly handed to the merger
            e.contains_query = True
            e.clip_edge = False
            e.subquery = False
            if not e.visible:
                e.certain = e.maybe = False
                e.img = None
                entries.append(e)
                continue
            f = s['field']
            img = field_rgba(f, X, Y)
            if not s['transparent']:
                img = np.rint(flatten(img))
            displaced = None
            geom = None
            if s['cov'] is not None:
                geom = cov_geom(case['covs'][s['cov'][0]])
                gb = box(*geom.bounds)
                e.contains_query = bool(geom.contains(qbox))
                if not gb.contains(qbox):
                    e.subquery = True
            R = (1.0 if e.subquery else 0.0) + D     # possible displacement of the layer image in pixels
            if R > 0:
                displaced = []
                for ox in (-R, -R / 2, 0.0, R / 2, R):
                    for oy in (-R, -R / 2, 0.0, R / 2, R):
                        d = field_rgba(f, X + ox * res, Y + oy * res)
                        if not s['transparent']:
                            d = np.rint(flatten(d))
                        displaced.append(d)
            if s['tc'] is not None:
                key = np.asarray(s['tc'][:3], dtype=float)
                tol = s['tc'][3]

                def keyed(im):
                    m = np.all(np.abs(im[..., :3] - key) <= tol, axis=-1)
                    im = im.copy()
                    im[..., 3] = np.where(m, 0.0, im[..., 3])
                    return im
                img = keyed(img)
                if displaced is not None:
                    displaced = [keyed(d) for d in displaced]
            if displaced is not None:
                stack = np.stack(displaced)
                # premultiplied colour and alpha variation under a displacement of up to one pixel
                pm = np.concatenate([stack[..., :3] * stack[..., 3:4] / 255.0, stack[..., 3:4]], axis=-1)
                e.var = (pm.max(axis=0) - pm.min(axis=0)).max(axis=-1)
                # the lattice bounds the smooth part; jumps closer than the possible displacement (1 px per axis,
                # 1.5 px along a diagonal normal) are found analytically - a lattice misses slivers between two edges
                e.dontcare |= (e.var > 3.0) | near_discontinuity(f, X, Y, (R + 0.5) * res)
            if geom is not None:
                clip = bool(s['cov'][1])
                pts = shapely.points(X, Y)
                inside = shapely.contains_xy(geom, X, Y)
                dist = shapely.distance(geom.boundary, pts) / res
                gbounds = box(*geom.bounds)
                in_bb = shapely.contains_xy(gbounds, X, Y)
                dist_bb = shapely.distance(gbounds.boundary, pts) / res
                near = dist <= 1.1 + D
                if clip:
                    e.dontcare |= near
                    img[..., 3] = np.where(inside, img[..., 3], 0.0)
                    e.clip_edge = bool(near.any())
                    e.clip_near = near
                else:
                    # inside the polygon: served; outside the coverage bbox: transparent; in between: not judged
                    e.dontcare |= near | (dist_bb <= 1.1 + D) | (in_bb & ~inside)
                    img[..., 3] = np.where(in_bb, img[..., 3], 0.0)
                inter = geom.intersection(qbox).area
                e.maybe = bool(geom.distance(qbox) <= 1e-6 * res)
                # a coverage whose bbox overlaps the window by less than a pixel yields an empty sub-request (blank image)
                ib = gbounds.intersection(qbox).bounds if gbounds.intersects(qbox) else (0.0, 0.0, 0.0, 0.0)
                e.certain = (e.maybe and inter > (res * res) * 1e-3
                             and ib[2] - ib[0] >= 2.0 * res and ib[3] - ib[1] >= 2.0 * res)
            if ext['limited']:
                img[..., 3] = np.where(ext['outside'], 0.0, img[..., 3])   # nothing is drawn beyond the SRS extent
            if ext['fully_outside']:
                e.certain = e.maybe = False
            e.img = img
            entries.append(e)
    return entries, (X, Y), ext


def compose(entries, rq, shape, opacity_of=None, skip=()):
    base = np.zeros(shape + (4,))
    base[..., :3] = rq['bgcolor']
    base[..., 3] = 0.0 if rq['transparent'] else 255.0
    out = base
    for k, e in enumerate(entries):
        if e.img is None or k in skip:
            continue
        op = e.opacity if opacity_of is None else opacity_of(k, e)
        im = e.img.copy()
        im[..., 3] = im[..., 3] * op
        out = over(out, im)
    return out


def compare(got, exp, judged, tol_px, transparent_result, blank_ok=None):
    """got uint8 RGBA [h,w,4]; exp float straight RGBA; returns boolean array of bad judged pixels + worst error"""
    g = got.astype(float)
    if transparent_result:
        ga = g[..., 3:4] / 255.0
        ea = exp[..., 3:4] / 255.0
        dc = np.abs(g[..., :3] * ga - exp[..., :3] * ea).max(axis=-1)
        da = np.abs(g[..., 3] - exp[..., 3])
        err = np.maximum(dc, da)
    else:
        # the reference is opaque by construction when the base is opaque
        err = np.abs(g[..., :3] - exp[..., :3]).max(axis=-1)
        err = np.maximum(err, 255.0 - g[..., 3])
    bad = judged & (err > tol_px)
    if blank_ok is not None:
        # beyond the configured SRS extent a fully transparent pixel is accepted as "background" on opaque output, too
        bad &= ~(blank_ok & (got[..., 3] == 0))
    worst = float(np.where(judged, err - tol_px, -1e9).max()) if judged.any() else -1.0
    return bad, worst, err


def local_range(exp_rgb, radius=17):
    """Largest channel range of the reference within +-radius pixels (every JPEG 16x16 MCU that can touch the
    pixel plus one pixel of chroma bleeding): the JPEG tolerance of a pixel grows with it, and pixels with a
    range above 8 levels are not judged (chroma subsampling makes larger errors near saturated edges)."""
    hi = exp_rgb.copy()
    lo = exp_rgb.copy()
    for axis in (0, 1):
        h2, l2 = hi.copy(), lo.copy()
        n = exp_rgb.shape[axis]
        for d in range(1, min(radius, n - 1) + 1):
            a = [slice(None)] * 3
            b = [slice(None)] * 3
            a[axis], b[axis] = slice(d, None), slice(None, n - d)
            a, b = tuple(a), tuple(b)
            h2[a] = np.maximum(h2[a], hi[b])
            h2[b] = np.maximum(h2[b], hi[a])
            l2[a] = np.minimum(l2[a], lo[b])
            l2[b] = np.minimum(l2[b], lo[a])
        hi, lo = h2, l2
    return (hi - lo).max(axis=-1)


# ------------------------------------------------------------------------------------------------
# check

def sig(name):
    return 'C14/' + name


def compatible(a, b):
    """adjacent sources that MapProxy may put into one upstream request (same URL, no opacity, same colour key and
    coverage geometry); used for statistics and for the by-construction exclusion of open findings only"""
    sa, sb = a.s, b.s
    if sa['host'] != sb['host'] or sa['opacity'] is not None or sb['opacity'] is not None:
        return False
    if sa['tc'] != sb['tc']:
        return False
    # MapProxy compares coverages by geometry (two separately configured but equal coverages are "the same")
    if a.cov is None or b.cov is None:
        return a.cov is None and b.cov is None
    if a.cov == b.cov:
        return True
    if a.cov['kind'] != b.cov['kind']:
        return False
    return bool(cov_geom(a.cov).equals(cov_geom(b.cov)))


def entry_opaque_decl(e):
    s = e.s
    return (e.visible and not s['transparent'] and s['tc'] is None and (s['cov'] is None or e.contains_query))


def reduce_case(case, rq):
    """the replayable case of one request: only the layers/sources the request touches, renumbered"""
    used = sorted(set(li for li, _ in expand_layers(case, rq['layers'])))
    lmap = dict((li, k) for k, li in enumerate(used))
    smap = {}
    layers = []
    sources_ = []
    for li in used:
        lay = case['layers'][li]
        idx = []
        for si in lay['sources']:
            smap[si] = len(sources_)
            sources_.append(case['sources'][si])
            idx.append(smap[si])
        layers.append({'sources': idx, 'range': lay['range']})
    group = None
    names = []
    for n in rq['layers']:
        if n == 'G':
            g = case['group']
            group = [lmap[g[0]], lmap[g[1]]]
            names.append('G')
        else:
            names.append('L%d' % lmap[int(n[1:])])
    rq2 = dict(rq)
    rq2['layers'] = names
    return {'covs': case['covs'], 'sources': sources_, 'layers': layers, 'group': group, 'requests': [rq2],
            'extent': case.get('extent'), 'on_err': case.get('on_err')}


def check_request(case, rq, app, up, st_, open_sigs, ri):
    bbox = request_bbox(case, rq)
    size = tuple(rq['size'])
    res = rq['res']
    entries, (X, Y), ext = prepare_entries(case, rq, bbox)
    if ext['degenerate']:
        st_.excluded['request overlaps the configured SRS extent by less than 3 px'] += 1
        return None
    vis = [e for e in entries if e.visible]
    shape = X.shape
    fmt = rq['format']
    transparent_result = bool(rq['transparent']) and fmt == 'png'
    vcase = reduce_case(case, rq)

    # ---- constructs of OPEN findings are excluded by construction (counted) ----------------------
    rendering = [e for e in entries if e.layer_renders]
    comb_pairs = [(a, b) for a, b in zip(rendering, rendering[1:]) if compatible(a, b)]
    # ... and neighbours once the sources that are outside their resolution range are left out of the render list
    rendering_vis = [e for e in rendering if e.visible]
    comb_pairs += [(a, b) for a, b in zip(rendering_vis, rendering_vis[1:]) if compatible(a, b) and (a, b) not in comb_pairs]
    # MapProxy composes into an RGB image (no alpha) iff the request is not transparent, whatever the format
    has_blend_construct = (not rq['transparent']) and any(
        0.0 < e.opacity < 1.0 and bool((e.img[..., 3] < 255.0).any()) for e in vis)
    opzero_construct = False
    seen_layers = []
    for e in entries:
        if e.li not in seen_layers:
            seen_layers.append(e.li)
    for e in vis:
        if e.s['opacity'] is not None and e.opacity == 0.0 and entry_opaque_decl(e) and seen_layers.index(e.li) > 0:
            opzero_construct = True
    combrange_construct = any((not a.visible) or (not b.visible) for a, b in comb_pairs)
    combkey_construct = any(a.visible and b.visible and a.s['tc'] is not None for a, b in comb_pairs)
    bboxclip_construct = any(e.visible and e.maybe and e.s['cov'] is not None and e.s['cov'][1]
                             and case['covs'][e.s['cov'][0]]['kind'] == 'bbox' for e in entries)
    grouprange_construct = any(e.via_group and not e.layer_in_range for e in entries)

    def trns_and_key(e):
        f = e.s['field']
        return (e.visible and e.s['transparent'] and e.s['tc'] is not None and f['deliver'] == 'rgbkey'
                and f['alpha'][0] != 'opaque')
    trnskey_construct = any(trns_and_key(e) for e in entries)
    # precondition (see ASSUMPTIONS): a source declared `transparent: false` that is the upper member of a combinable
    # pair has no empty areas - otherwise "the individual layer image" (flattened on white by the server) and the
    # server-side composite legitimately differ
    if any(a.visible and b.visible and not b.s['transparent'] and b.s['field']['alpha'][0] != 'opaque' for a, b in comb_pairs):
        st_.excluded['precondition: non-transparent source with empty areas above a combinable neighbour'] += 1
        return None
    for construct, s_ in ((has_blend_construct, SIG_BLEND), (opzero_construct, SIG_OPZERO),
                          (combrange_construct, SIG_COMBRANGE),
                          (combkey_construct, SIG_COMBKEY), (bboxclip_construct, SIG_BBOXCLIP),
                          (grouprange_construct, SIG_GROUPRANGE), (trnskey_construct, SIG_TRNSKEY)):
        if construct and s_ in open_sigs:
            st_.excluded['open-finding:' + s_] += 1
            return None

    # ---- drive MapProxy ---------------------------------------------------------------------------
    up.clear()
    url = ('/service?SERVICE=WMS&VERSION=1.1.1&REQUEST=GetMap&LAYERS=%s&STYLES=&SRS=%s&BBOX=%s&WIDTH=%d&HEIGHT=%d'
           '&FORMAT=image/%s&TRANSPARENT=%s&BGCOLOR=0x%02x%02x%02x' % (
               ','.join(rq['layers']), SRS, ','.join(repr(float(v)) for v in bbox), size[0], size[1], fmt,
               'TRUE' if rq['transparent'] else 'FALSE', rq['bgcolor'][0], rq['bgcolor'][1], rq['bgcolor'][2]))
    resp = app.get(url, expect_errors=True)
    if up.harness_errors:
        raise core.HarnessError('synthetic upstream failed: %s' % up.harness_errors[0])
    ctype = resp.headers.get('Content-type', '')
    if resp.status_int != 200 or not ctype.startswith('image/'):
        if resp.status_int == 500 and bboxclip_construct:
            return core.Violation(SIG_BBOXCLIP, 'GetMap on a source with `coverage: {bbox: ..., clip: true}` -> %s (mask_polygons: '
                                  'BBOXCoverage has no geom): %s' % (resp.status, url), vcase)
        return core.Violation(sig('error-response'), 'GetMap %s -> %s %s %r' % (url, resp.status, ctype, resp.body[:200]), vcase)
    img = ground.decode_image(resp.body)
    if img.size != size:
        return core.Violation(sig('response-size'), 'response size %r for request %r' % (img.size, size), vcase)
    got = ground.to_rgba_array(img)
    calls = [c.info.get('layers') or [] for c in up.calls('map')]
    requested = set(n for c in calls for n in c)

    # ---- reference --------------------------------------------------------------------------------
    exp = compose(entries, rq, shape)
    judged = np.ones(shape, bool)
    if ext['limited']:
        judged &= ~ext['band']
    tol = np.full(shape, 2.0 * max(1, len(vis)))
    for e in vis:
        judged &= ~e.dontcare
        tol = tol + np.minimum(e.var, 3.0)
    if fmt == 'jpeg':
        if rq['transparent']:
            judged &= exp[..., 3] >= 254.5
            st_.notes['jpeg-transparent-request: non-opaque reference pixels not judged'] += 1
        judged_geom = judged.copy()
        flat = flatten(exp, rq['bgcolor'])[..., :3]
        rng = local_range(flat)
        judged &= rng <= 8.0
        # the picture is unknown at unjudged pixels (coverage edges ...): nothing that shares an MCU with them is judged
        unknown = np.where(judged_geom, 0.0, 1000.0)[..., None]
        judged &= local_range(np.concatenate([unknown, np.zeros(shape + (1,))], axis=-1)) == 0.0
        tol = tol + 10.0 + rng
        exp_cmp = np.concatenate([flat, np.full(shape + (1,), 255.0)], axis=-1)
    else:
        exp_cmp = exp
    bad, worst, err = compare(got, exp_cmp, judged, tol, transparent_result, ext['outside'])

    # ---- classes / statistics ---------------------------------------------------------------------
    classes = ['layers:%d' % len(vis), 'fmt:' + fmt, 'req-transparent:%s' % bool(rq['transparent'])]
    nt = set()
    for k, e in enumerate(vis):
        s = e.s
        classes.append('deliver:' + (s['field']['deliver'] if s['transparent'] else 'flattened-rgb'))
        classes.append('alpha:' + s['field']['alpha'][0])
        semi = bool((e.img[..., 3] < 255.0).any())
        if s['opacity'] is not None:
            classes.append('opacity:%g' % s['opacity'])
        if s['tc'] is not None:
            classes.append('transparent_color')
            if (e.img[..., 3] == 0).any():
                classes.append('transparent_color-hit')
        if s['cov'] is not None:
            classes.append('coverage:' + ('clip' if s['cov'][1] else 'noclip') + ('-edge-in-window' if (e.clip_edge or e.subquery) else ''))
        if e.subquery:
            classes.append('sub-request')
        if k > 0 and len(vis) >= 2:
            if semi or e.opacity < 1.0:
                nt.add('upper-semitransparent')
            if e.clip_edge:
                nt.add('upper-clipped')
            if entry_opaque_decl(e) and e.opacity >= 0.99:
                nt.add('opaque-above-others')
    if any(not e.visible for e in entries):
        classes.append('source-out-of-res-range')
    for k, e in enumerate(entries):
        if (k > 0 and not e.visible and e.layer_renders and not e.s['transparent'] and e.s['tc'] is None
                and e.s['cov'] is None and any(o.visible and o.li != e.li for o in entries[:k])):
            classes.append('opaque-source-out-of-range-in-rendered-layer-above-others')
            break
    if any(a.visible and b.visible for a, b in comb_pairs):
        nt.add('combinable-pair')
    if any(len(c) >= 2 for c in calls):
        classes.append('upstream-combined-request')
    pruned = [e for e in vis if e.certain and e.name not in requested]
    if pruned:
        classes.append('pruned-below-opaque')
    if len(calls) == 1 and len(calls[0]) == 1:
        classes.append('single-upstream-image')
    if 'G' in rq['layers']:
        classes.append('group-layer-request')
    classes.append('on_source_errors:%s' % (case.get('on_err') or 'absent'))
    if case.get('on_err') == 'raise' and any(e.clip_edge and e.cov['kind'] == 'poly' and e.maybe for e in vis):
        classes.append('on_source_errors:raise+polygon-clip-edge-in-window')
    if case.get('extent') is not None:
        classes.append('srs-extent-configured')
    if ext['limited']:
        classes.append('request-beyond-srs-extent' + (':fully' if ext['fully_outside'] else ''))
        if any(e.clip_edge and bool((e.clip_near & ~ext['outside'] & ~ext['band']).any()) for e in vis):
            classes.append('request-beyond-srs-extent:clip-edge-inside')
    if transparent_result:
        classes.append('result:rgba')
    else:
        classes.append('result:opaque')
    if len(vis) < 2:
        nt = set()
    classes.extend('nt:' + n for n in sorted(nt))
    key = {'stack': [[e.s, case['covs'][e.s['cov'][0]] if e.s['cov'] is not None else None,
                      case['layers'][e.li]['range']] for e in entries],
           'rq': {k: rq[k] for k in ('transparent', 'bgcolor', 'format', 'res', 'size')}, 'bbox': bbox}
    st_.case(key=key, nontrivial=bool(nt), classes=classes, sample={'request': rq, 'bbox': bbox, 'upstream_calls': calls,
                                                                    'sources': [e.s for e in entries]})
    st_.notes['judged_pixels'] += int(judged.sum())
    if fmt == 'jpeg':
        st_.notes['judged_pixels_jpeg'] += int(judged.sum())
        st_.notes['unjudged_pixels_jpeg'] += int((~judged).sum())
    st_.notes['unjudged_pixels'] += int((~judged).sum())

    if ext['limited'] and not rq['transparent'] and bool((ext['outside'] & judged & (got[..., 3] == 0)).any()):
        st_.notes['TRANSPARENT=FALSE request beyond the SRS extent answered with alpha 0 outside the extent (accepted)'] += 1
    if not bad.any():
        return None

    # ---- single rendered image with opacity < 1: doc allows the unchanged picture -----------------
    maybe = [k for k, e in enumerate(entries) if e.visible and e.maybe]
    for k in maybe:
        e = entries[k]
        if e.opacity < 1.0 and all((j == k) or (not entries[j].certain) for j in maybe):
            others = tuple(j for j in maybe if j != k)
            alt = compose(entries, rq, shape, opacity_of=lambda j, en: 1.0 if j == k else en.opacity, skip=others)
            if fmt == 'jpeg':
                alt = np.concatenate([flatten(alt, rq['bgcolor'])[..., :3], np.full(shape + (1,), 255.0)], axis=-1)
                j2 = judged & (local_range(alt[..., :3]) <= 8.0)
            else:
                j2 = judged
            bad2, _, _ = compare(got, alt, j2, tol, transparent_result, ext['outside'])
            if not bad2.any():
                st_.notes['single-image-with-opacity-served-unfaded (accepted, doc)'] += 1
                return None

    # ---- attribute a root-cause signature ---------------------------------------------------------
    ys, xs = np.nonzero(bad)
    py, px = int(ys[0]), int(xs[0])
    where = 'pixel (%d,%d) got %r expected %r (tolerance %.1f); %d of %d judged pixels differ; upstream calls %r' % (
        px, py, [int(v) for v in got[py, px]], [round(float(v), 1) for v in exp_cmp[py, px]], float(tol[py, px]),
        int(bad.sum()), int(judged.sum()), calls)
    for e in entries:
        if e.via_group and not e.layer_in_range and e.name in requested:
            return core.Violation(SIG_GROUPRANGE, 'LAYERS=G: child layer L%d is outside its min_res/max_res at resolution %g but its '
                                  'source %s was requested and rendered: %s' % (e.li, res, e.name, where), vcase)
    for c in calls:
        if len(c) >= 2:
            es = [e for e in entries if e.name in c]
            if any(not e.visible for e in es):
                return core.Violation(SIG_COMBRANGE, 'combined upstream request LAYERS=%s contains a source that is outside its '
                                      'min_res/max_res at resolution %g: %s' % (','.join(c), res, where), vcase)
    for c in calls:
        if len(c) >= 2:
            es = [e for e in entries if e.name in c]
            if any(e.s['tc'] is not None for e in es):
                return core.Violation(SIG_COMBKEY, 'sources with transparent_color were merged into one upstream request LAYERS=%s; the '
                                      'colour key is applied to the server-side composite, so the key-coloured (background) pixels of the upper '
                                      'layer hide the lower layer instead of showing it: %s' % (','.join(c), where), vcase)
    if trnskey_construct:
        cand = np.zeros(shape, bool)
        for e in entries:
            if trns_and_key(e):
                cand |= (field_rgba(e.s['field'], X, Y)[..., 3] == 0) | e.dontcare
        if not (bad & ~cand).any():
            return core.Violation(SIG_TRNSKEY, 'a source with transparent_color whose server answers with an RGB PNG carrying a tRNS '
                                  'colour key: make_transparent replaces the alpha channel and the tRNS-transparent pixels come out '
                                  'opaque in the key colour: %s' % where, vcase)
    if not rq['transparent']:
        cand = np.zeros(shape, bool)
        for e in vis:
            if 0.0 < e.opacity < 1.0:
                cand |= (e.img[..., 3] < 255.0) | e.dontcare
        if cand.any() and not (bad & ~cand).any():
            return core.Violation(SIG_BLEND, 'opaque result: a layer with 0 < opacity < 1 shows the colour stored under its '
                                  '(partly) transparent pixels (Image.blend ignores the layer alpha): %s' % where, vcase)
    for k, e in enumerate(entries):
        if e.visible and e.s['opacity'] is not None and e.opacity == 0.0 and entry_opaque_decl(e):
            first = min(j for j, o in enumerate(entries) if o.li == e.li)
            if first > 0:
                below = tuple(range(first))
                for op1 in (False, True):
                    alt = compose(entries, rq, shape, skip=below,
                                  opacity_of=(lambda j, en: 1.0 if (op1 and j == k) else en.opacity))
                    if fmt == 'jpeg':
                        alt = np.concatenate([flatten(alt, rq['bgcolor'])[..., :3], np.full(shape + (1,), 255.0)], axis=-1)
                    bad2, _, _ = compare(got, alt, judged, tol, transparent_result, ext['outside'])
                    if not bad2.any():
                        return core.Violation(SIG_OPZERO, 'a source with opacity: 0 (documented: fully transparent) is treated as opaque: '
                                              'the layers below it are not rendered: %s' % where, vcase)
    feats = []
    if any(len(c) >= 2 for c in calls):
        feats.append('combined')
    if pruned:
        feats.append('pruned')
    if len(calls) <= 1 and not feats:
        feats.append('single-image')
    if any(e.s['cov'] is not None and e.s['cov'][1] for e in vis):
        feats.append('clip')
    if any(e.opacity < 1.0 for e in vis):
        feats.append('opacity')
    if any(e.s['tc'] is not None for e in vis):
        feats.append('colour-key')
    return core.Violation(sig('composite-mismatch/%s/%s' % ('rgba' if transparent_result else fmt + '-opaque', '+'.join(feats) or 'plain')),
                          where, vcase)


_OPEN = {}


def _open_signatures():
    if 'v' not in _OPEN:
        _OPEN['v'] = core.open_signatures(PROPERTY)
        # verification aid for proposed repairs: run against a scratch copy with fixes_proposed/C14-*.patch applied
        # and VERIF_C14_NO_EXCLUSIONS=1 - nothing is excluded, every finding's construct is generated and judged
        if os.environ.get('VERIF_C14_NO_EXCLUSIONS'):
            _OPEN['v'] = set()
    return _OPEN['v']


_SCRATCH = {}
_AFTER = {}


def check_case(case, st_, collect=None):
    # replay (collect given) never excludes anything: regression cases demonstrate the open findings
    open_sigs = _open_signatures() if collect is None else set()
    # one scratch directory per process (creating/removing a directory per case dominated the run time); it only
    # ever holds mapproxy.yaml and the coverage files of the current case and is removed by its owner
    if collect is None and _AFTER.get('left') is not None:
        # once a shard has a violation, 200 further cases are searched for other root causes, the rest of the
        # budget is skipped (the verdict is already VIOLATION; skipped cases are counted as inconclusive)
        if _AFTER['left'] <= 0:
            st_.inconclusive['cases skipped after the first violation of the shard'] += 1
            return None
        _AFTER['left'] -= 1
    own = 'dir' not in _SCRATCH
    base = tempfile.mkdtemp(prefix='c14_') if own else _SCRATCH['dir']
    try:
        from webtest import TestApp
        conf = build_conf(case, base)
        app = TestApp(ground.make_app(conf, base))
        up = ground.Upstream(None)
        up.harness_errors = []
        for h in range(len(HOSTS)):
            srv = FieldServer(dict(('f%d' % i, s['field']) for i, s in enumerate(case['sources']) if s['host'] == h),
                              up.harness_errors)
            up.add_wms(HOSTS[h], render_fn=srv.render)
        first = None
        with up:
            for ri, rq in enumerate(case['requests']):
                v = check_request(case, rq, app, up, st_, open_sigs, ri)
                if v is not None:
                    if collect is not None:
                        collect.append(v)
                    else:
                        first = v
                        if _AFTER.get('left') is None:
                            _AFTER['left'] = 200
                        break
        return first
    finally:
        if own:
            shutil.rmtree(base, ignore_errors=True)


def random_shard(shard, nshards, seed, tier):
    st_ = core.Stats()
    n = (11200 if tier == 'quick' else 240000) // nshards
    _SCRATCH['dir'] = tempfile.mkdtemp(prefix='c14_')
    try:
        core.hyp_search(cases(), check_case, st_, max_examples=n, seed=seed, shrink=False)
    finally:
        shutil.rmtree(_SCRATCH.pop('dir'), ignore_errors=True)
    return st_


def run(tier, seed, stats):
    stats.merge(core.parallel(random_shard, 16, seed, tier))


def replay(case, stats):
    out = []
    check_case(case, stats, collect=out)
    return out
