"""C16 - Invalid or oversized requests are refused before they cost anything.

One generated MapProxy configuration per case: one grid (as in C02: SRS, bbox not a multiple of the tile span,
ll / ul origin, factor 2 / sqrt2 / custom resolutions, global profiles), two cached layers (layer a: file cache in
tc / tms / mp layout, optionally with dimensions; layer b: sqlite / mbtiles / file cache) on a synthetic WMS and a
synthetic tile server, services tms (+ /tiles with ?origin=), kml, wmts (kvp + restful), wms with a small
max_output_pixels and globals.cache.max_tile_limit.  The reference client (vcheck/refclient.py) reads the TMS and
WMTS documents the application serves; from them the harness derives, per service and layer, the advertised levels,
column / row ranges, formats and dimension values.  Then a lattice of requests around every boundary is sent
through a hand-built PEP 3333 call (vcheck/wsgicall.py) while
  * the synthetic upstream logs every request (ground.Upstream.log),
  * the audit-hook observer (vcheck/sandbox.py) records every file-system write below the cache directory,
  * the cache directory listing and the rows of every sqlite database are compared before / after.
See DESIGN.md section 17.
"""
import math
import os
import random
import re
import shutil
import sqlite3
import tempfile
from fractions import Fraction as Fr
from urllib.parse import quote, urlsplit

from hypothesis import strategies as st

from .. import core, ground, refclient, sandbox, wsgicall
from ..refgrid import RefGrid

PROPERTY = 'C16'
LEVEL = 'exploration'
RULE = ('Hypothesis-generated configurations (grid: GLOBAL_MERCATOR / GLOBAL_GEODETIC / GLOBAL_WEBMERCATOR or custom SRS '
        '3857/900913/4326/25832/31467, bbox arbitrary or multiple of the tile span, origin ll/ul/sw/nw, tile 32-256 incl. '
        'non-square, factor 2 / sqrt2 / custom resolutions / min_res; layer a = file cache (tc/tms/mp) with optional time / '
        'elevation dimensions, layer b = sqlite / mbtiles / file cache; sources = synthetic WMS and tile server; png / jpeg; '
        'max_tile_limit 3-12, max_output_pixels 4-16 tiles worth of pixels).  Per configuration and per service (tms, /tiles, '
        '/tiles?origin=sw, /tiles?origin=nw, kml, wmts kvp, wmts restful) the whole single-axis boundary lattice is sent: column '
        'and row in {-1, last+1, 2^31, 10^18} and level in {-1, last+1, 99, non-numeric} with the other coordinates valid '
        '(0 / last / interior), plus two-axis combinations, off-list formats, off-list dimension values and valid corner '
        'addresses (0, last) of the first / last level; when feature info is configured (2 of 3 configurations) WMTS GetFeatureInfo '
        '(kvp + restful) with the same out-of-matrix lattice; WMS GetMap with WIDTHxHEIGHT below / at / above / far above / '
        'astronomically above max_output_pixels - each relation plain and twice with extra parameters (tiled=true in four '
        'spellings, EXCEPTIONS=inimage / blank, TRANSPARENT, BGCOLOR, unknown vendor parameters), on cached layers and, in 4 of 5 '
        'configurations, on a layer wired directly to a WMS source and a layer mixing a cache and a direct source -, with bboxes that need T = limit-1, limit, limit+1, limit+2, 4*limit tiles '
        '(unambiguous: aligned to the level resolution, 0.25 tile inside the tile union), and bboxes across / beyond the grid '
        'edge.  One request = one evaluation.  Non-trivial: a tile address with a coordinate within 1 of a matrix boundary '
        '(-1, 0, last, last+1; level -1, first, last, last+1) or astronomically large (2^31, 10^18, level 99 / non-numeric), an '
        'off-list format / dimension request on a valid address, or a map request within 5 % (pixels) / within one tile or '
        '5 % (tiles) of a limit or across the grid edge; distinct = distinct (configuration, request URL).')
ASSUMPTIONS = [
    'advertised matrix = what the reference client (TMS 1.0.0 / WMTS 1.0.0 conventions, exact rational arithmetic) reads from the '
    'documents the application serves; a TMS column / row is valid when the tile overlaps <BoundingBox> by more than one pixel, '
    'invalid when it does not overlap it at all, and not judged in between (a grid may drop a partial pixel of its extent)',
    '/tiles and /kml have no capabilities document: their matrix is the TMS one (doc/services.rst: same tiles, /tiles and kml start '
    'with the single-tile level, i.e. level = TMS order + 1 for the global profiles); ?origin= only changes the row direction',
    'when the KVP WMTS capabilities cannot be read the KVP requests are judged against the RESTful document of the same server '
    '(counted in notes)',
    'no MapProxy document or doc/ page defines an empty tile for out-of-range addresses (only for authorization limited_to), so a '
    'non-blank 200 image for an invalid request is a violation; a blank 200 tile without upstream request / cache write is tolerated '
    'and counted ("or an empty tile where the service defines that")',
    'error = HTTP status >= 400, or an XML service exception / exception report, or an exception escaping the application '
    '(the latter is the business of C18 and only counted here)',
    'a WMTS GetFeatureInfo request addresses a tile (OGC 07-057r7 lists TileOutOfRange for it): an out-of-matrix address must be '
    'answered with an error without upstream request; where a valid GetFeatureInfo lands is not judged here (C01)',
    'format / dimension / level aliases (image/png; mode=8bit, TILEMATRIX=1 for 01, Unicode digits, upper-case extensions) are not '
    'generated: only values that no lenient reading maps to an offered one',
    'max_output_pixels: doc/services.rst "requests that are larger" are refused, WIDTH*HEIGHT == limit must be served; '
    'max_tile_limit: doc says "maximum number of tiles MapProxy will merge", the code refuses T >= limit; T == limit is judged '
    'only for side effects, T < limit must be served, T > limit must be refused',
    'extra request parameters never weaken a refusal: over max_output_pixels => error, empty upstream log, no cache write whatever '
    'else the request carries (with EXCEPTIONS=inimage / blank the answer may be an image, only the side effects are judged); a '
    'below-limit request with tiled=true follows the WMS-C alignment rules, which are not modelled: judged for the global clause only',
    'tile count of a GetMap: request in the grid SRS, min(x, y) resolution equal to a level resolution, bbox = union of nx x ny '
    'tiles shrunk by 0.25 tile on every side and lying inside the grid bbox',
    'cache write = any new / changed / removed file, directory or sqlite row below the configured cache directories (lock '
    'directory excluded) or a write audit event (open for writing, mkdir, rename, remove ...; a bare sqlite3.connect is not a '
    'write) there while the request is served',
    'the in-grid verdict for stored tiles and upstream tile URLs uses the grid sizes of the loaded grid (C03 checks those '
    'against the exact model); dimension directories must name an offered value',
    'image.paletted: false (DESIGN section 1)',
]

SIG_WMTS_SQRT2 = 'C16/wmts/sqrt2-level-remapped'
SIG_WMTS_FI = 'C16/wmts/featureinfo-tile-bounds-unchecked'

TILE_SVCS = ['tms', 'tiles', 'tiles-sw', 'tiles-nw', 'kml', 'wmts-kvp', 'wmts-rest']
OFF_COL = ['-1', 'last+1', '2^31', '10^18']
VAL_COL = ['0', 'last', 'mid']
OFF_LVL = ['-1', 'last+1', '99', 'nonnum']
VAL_LVL = ['first', 'second', 'last', 'mid']
NONNUM = ['abc', 'z1', '1a', '1.5', '1e1', 'NaN', '0x1', '-', 'one', '1_0']
OFF_EXT = ['jpeg', 'png', 'gif', 'tiff', 'pn', 'pngx', 'xml', 'webp', 'bmp']
OFF_MIME = ['image/jpeg', 'image/png', 'image/gif', 'image/tiff', 'text/xml', 'application/json', 'image/pn', 'image/webp']
OFF_DIM = ['2018', '1999-01-01', '20200', 'x', '2020,2021', '2020/2021', '..', 'latest', '-1', '2020.5']
DIM_VALUES = {'time': (['2019', '2020', '2021'], '2020'), 'elevation': (['0', '500', '1000'], '500')}
# vendor / optional parameters that must not weaken a refusal (appended to the GetMap query)
TILED_EXTRAS = ['tiled=true', 'TILED=TRUE', 'tiled=True', 'Tiled=tRuE', 'tiled=true&EXCEPTIONS=inimage']
OTHER_EXTRAS = ['EXCEPTIONS=inimage', 'TRANSPARENT=true', 'FOO=bar&X_VENDOR=1', 'BGCOLOR=0xff0000', 'EXCEPTIONS=blank',
                'tiled=false', 'DPI=300&MAP_RESOLUTION=300', 'TILED=yes']
# in-image / blank exception formats in the spellings of WMS 1.1.1 and 1.3.0 ('v130:' = sent as a 1.3.0 request when over the limit)
EXC_EXTRAS = ['EXCEPTIONS=application/vnd.ogc.se_inimage', 'EXCEPTIONS=application/vnd.ogc.se_blank', 'v130:EXCEPTIONS=INIMAGE',
              'v130:EXCEPTIONS=BLANK', 'EXCEPTIONS=blank', 'EXCEPTIONS=inimage', 'v130:EXCEPTIONS=blank&TRANSPARENT=TRUE',
              'EXCEPTIONS=application/vnd.ogc.se_blank&tiled=true']
REST_TEMPLATES = [None, None,
                  '/{Layer}/{TileMatrixSet}/{TileMatrix}/{TileRow}/{TileCol}.{Format}',
                  '/x/{TileMatrixSet}/{Layer}/{TileMatrix}/{TileCol}/{TileRow}.{Format}']
REST_DIM_TEMPLATES = {
    ('time',): '/{Layer}/{TileMatrixSet}/{Time}/{TileMatrix}/{TileCol}/{TileRow}.{Format}',
    ('elevation', 'time'): '/{Layer}/{TileMatrixSet}/{Time}/{Elevation}/{TileMatrix}/{TileCol}/{TileRow}.{Format}',
}


# ------------------------------------------------------------------------------------------------
# generators

SRS_AREAS = {
    'EPSG:3857': ((-2e6, 2e6), (4e6, 8e6), (2e4, 4e6)),
    'EPSG:900913': ((-2e6, 2e6), (4e6, 8e6), (2e4, 4e6)),
    'EPSG:4326': ((-20.0, 30.0), (30.0, 60.0), (0.2, 30.0)),
    'EPSG:25832': ((2e5, 6e5), (5.2e6, 5.9e6), (1e4, 5e5)),
    'EPSG:31467': ((3.3e6, 3.6e6), (5.2e6, 5.9e6), (1e4, 4e5)),
}
SRS_WEIGHTED = ['EPSG:3857', 'EPSG:900913', 'EPSG:4326', 'EPSG:4326', 'EPSG:25832', 'EPSG:25832', 'EPSG:31467']
TILE_SIZES = [(32, 32), (64, 64), (64, 64), (128, 128), (256, 256), (100, 100), (64, 32), (48, 96), (128, 64)]


@st.composite
def grid_specs(draw):
    kind = draw(st.sampled_from(['base', 'custom', 'custom', 'custom']))
    if kind == 'base':
        g = {'kind': 'base', 'base': draw(st.sampled_from(['GLOBAL_MERCATOR', 'GLOBAL_GEODETIC', 'GLOBAL_WEBMERCATOR'])),
             'num_levels': draw(st.sampled_from([2, 3, 4, 5, 5, 6, 7])),
             'tile_size': draw(st.sampled_from([None, None, (64, 64), (128, 128), (32, 32)]))}
        if draw(st.integers(0, 3)) == 0:
            g['res_factor'] = 'sqrt2'
            g['num_levels'] = draw(st.integers(3, 9))
        return g
    srs = draw(st.sampled_from(SRS_WEIGHTED))
    xr, yr, wr = SRS_AREAS[srs]
    tile_size = draw(st.sampled_from(TILE_SIZES))
    origin = draw(st.sampled_from(['ll', 'ul', 'sw', 'nw', None, 'ul', 'nw']))
    mode = draw(st.sampled_from(['f2', 'f2', 'sqrt2', 'res_nice', 'res_ratio', 'minres']))
    flavour = draw(st.sampled_from(['arb', 'arb', 'mult']))
    # a single-level grid cannot be loaded with tile services enabled (IndexError in TileServiceGrid.__init__)
    nl = draw(st.sampled_from([2, 3, 4, 4, 5, 5, 6])) if mode != 'sqrt2' else draw(st.sampled_from([2, 3, 5, 6, 7, 8, 9]))
    digits = draw(st.sampled_from([0, 2, 6]))
    scale = 1.0 if srs != 'EPSG:4326' else 1e-4

    def rnd(v):
        return round(v / scale, digits) * scale if digits else float(round(v / scale)) * scale
    x0 = rnd(draw(st.floats(xr[0], xr[1])))
    y0 = rnd(draw(st.floats(yr[0], yr[1])))
    w = math.exp(draw(st.floats(math.log(wr[0]), math.log(wr[1]))))
    g = {'kind': 'custom', 'srs': srs, 'tile_size': tile_size, 'origin': origin, 'mode': mode, 'flavour': flavour}
    if flavour == 'mult':
        nx, ny = draw(st.integers(1, 3)), draw(st.integers(1, 3))
        r0 = float('%.3g' % (w / (tile_size[0] * nx)))
        g['mode'] = mode = 'res_nice' if mode not in ('f2',) or nx != ny or tile_size[0] != tile_size[1] else mode
        g['bbox'] = (x0, y0, x0 + nx * tile_size[0] * r0, y0 + ny * tile_size[1] * r0)
        if mode == 'res_nice':
            g['res'] = [r0 / 2 ** i for i in range(nl)]
        else:
            g['num_levels'] = nl
        return g
    aspect = draw(st.sampled_from([1.0, 1.0, 0.5, 2.0, 0.77, 1.31]))
    w = rnd(w) or wr[0]
    h = rnd(w * aspect) or wr[0]
    g['bbox'] = (x0, y0, x0 + w, y0 + h)
    init = max(w / tile_size[0], h / tile_size[1])
    if mode in ('f2', 'sqrt2'):
        g['num_levels'] = nl
    elif mode == 'res_nice':
        r0 = float('%.2g' % init)
        g['res'] = [r0 / 2 ** i for i in range(nl)]
    elif mode == 'res_ratio':
        ratios = draw(st.lists(st.sampled_from([2.0, 1.5, 2.5, 4.0, 1.25, 3.0, 10.0]), min_size=nl, max_size=nl))
        r = float('%.3g' % (init * draw(st.sampled_from([1.0, 0.5, 0.37, 1.3]))))
        res = []
        for q in ratios:
            res.append(float('%.4g' % r))
            r = r / q
        g['res'] = sorted(set(res), reverse=True)
        if len(g['res']) < 2:
            g['res'] = [g['res'][0], g['res'][0] / 2]
    else:
        g['min_res'] = float('%.3g' % (init * draw(st.sampled_from([1.0, 0.6, 0.31]))))
        g['num_levels'] = nl
    return g


@st.composite
def opt_specs(draw):
    dims = draw(st.sampled_from([None, None, ('time',), ('time',), ('elevation', 'time')]))
    return {
        'layout': draw(st.sampled_from(['tc', 'tms', 'mp'])),
        'b_backend': draw(st.sampled_from(['sqlite', 'sqlite', 'mbtiles', 'mbtiles', 'file'])),
        'b_layout': draw(st.sampled_from(['tc', 'tms', 'mp'])),
        'a_source': draw(st.sampled_from(['wms', 'wms', 'wms', 'tile'])),
        'b_source': draw(st.sampled_from(['tile', 'tile', 'tile', 'wms'])),
        'dims': list(dims) if dims else None,
        'rest_template': draw(st.integers(0, len(REST_TEMPLATES) - 1)),
        'grid_names': draw(st.booleans()),
        'tms_origin': draw(st.sampled_from([None, None, 'nw', 'sw'])),
        'meta': draw(st.sampled_from([(1, 1, 0), (2, 2, 0), (2, 2, 0), (2, 1, 8), (3, 3, 0)])),
        'a_fmt': draw(st.sampled_from(['png', 'png', 'png', 'jpeg'])),
        'b_fmt': draw(st.sampled_from(['png', 'png', 'jpeg'])),
        'max_tile_limit': draw(st.sampled_from([3, 4, 5, 6, 8, 9, 12])),
        'max_px': draw(st.sampled_from([(2, 2), (3, 2), (2, 3), (3, 3), (4, 4), (4, 2)])),
        'fi': draw(st.sampled_from([True, True, False])),
        # layers that are not (only) backed by a cache: lyr_d = WMS source directly, lyr_m = cache c_a + direct source
        'direct': draw(st.sampled_from([None, 'd', 'dm', 'dm', 'dm'])),
        # c_x = cache with two grids (g1 + g2 in another SRS) under lyr_x; cascades add c_y (grid g1) under lyr_y whose
        # source is the single-grid cache c_b or the two-grid cache c_x
        'multi': draw(st.sampled_from([None, 'cascade-single', 'cascade-multi', 'two-grids', None, 'cascade-multi', 'cascade-single'])),
    }


def make_probes(seed, opts):
    """The request lattice of one configuration (deterministic function of the drawn seed)."""
    rnd = random.Random(seed)
    probes = []

    def valid_addr():
        return {'lvl': rnd.choice(VAL_LVL), 'col': rnd.choice(VAL_COL), 'row': rnd.choice(VAL_COL)}

    def dim_choice(layer):
        if layer != 'a' or not opts.get('dims'):
            return None
        return rnd.choice(['omit', 'default', 'v0', 'v1', 'v2'])

    for svc in TILE_SVCS:
        layer = rnd.choice(['a', 'b'])
        other = 'b' if layer == 'a' else 'a'

        def add(layer_, addr, **kw):
            p = {'kind': 'tile', 'svc': svc, 'layer': layer_, 'fmt': 'ok', 'dim': dim_choice(layer_)}
            p.update(addr)
            p.update(kw)
            probes.append(p)
        for axis in ('col', 'row'):
            for off in OFF_COL:
                a = valid_addr()
                a[axis] = off
                add(layer, a)
        for off in OFF_LVL:
            a = valid_addr()
            a['col'], a['row'] = rnd.choice(['0', '0', 'last']), rnd.choice(['0', '0', 'last'])
            a['lvl'] = off
            if off == 'nonnum':
                a['nonnum'] = rnd.randrange(len(NONNUM))
            add(layer, a)
        # two coordinates off
        a = valid_addr()
        ax = rnd.sample(['col', 'row', 'lvl'], 2)
        for k in ax:
            a[k] = rnd.choice(OFF_COL if k != 'lvl' else ['-1', 'last+1', '99'])
        add(other, a)
        # off-list format on a valid address (both layers now and then)
        add(layer, valid_addr(), fmt=rnd.randrange(len(OFF_EXT)))
        if rnd.random() < 0.5:
            add(other, valid_addr(), fmt=rnd.randrange(len(OFF_EXT)))
        # off-list dimension value on a valid address
        if opts.get('dims') and svc.startswith('wmts'):
            dname = rnd.choice(opts['dims'])
            add('a', valid_addr(), dim='off', dim_name=dname, dim_off=rnd.randrange(len(OFF_DIM)))
            add('a', valid_addr(), dim='off', dim_name=dname, dim_off=rnd.randrange(len(OFF_DIM)))
        # valid boundary addresses
        add(layer, {'lvl': 'last', 'col': 'last', 'row': 'last'})
        add(other, {'lvl': rnd.choice(['first', 'last']), 'col': rnd.choice(['0', 'last']), 'row': rnd.choice(['0', 'last'])})
        add(layer, {'lvl': 'first', 'col': '0', 'row': '0'})
        if rnd.random() < 0.5:
            add(other, valid_addr())
    # WMTS GetFeatureInfo addresses a tile too: out-of-matrix addresses must not reach the upstream server
    if opts.get('fi'):
        queryable = [l for l in ('a', 'b') if opts[l + '_source'] == 'wms']
        for svc in ('wmts-kvp', 'wmts-rest'):
            layer = rnd.choice(queryable) if queryable and rnd.random() < 0.85 else rnd.choice(['a', 'b'])
            for axis in ('col', 'row'):
                for off in OFF_COL:
                    a = valid_addr()
                    a[axis] = off
                    probes.append(dict(a, kind='wmts-fi', svc=svc, layer=layer, fmt='ok', dim=None))
            for off in OFF_LVL:
                a = {'lvl': off, 'col': rnd.choice(['0', 'last']), 'row': rnd.choice(['0', 'last'])}
                if off == 'nonnum':
                    a['nonnum'] = rnd.randrange(len(NONNUM))
                probes.append(dict(a, kind='wmts-fi', svc=svc, layer=layer, fmt='ok', dim=None))
    # WMS
    px_layers = ['a', 'b', 'ab']
    direct = opts.get('direct') or ''
    if 'd' in direct:
        px_layers += ['d', 'd', 'ad']
    if 'm' in direct:
        px_layers += ['m', 'm']
    for rel in ('below', 'at', 'at-swapped', 'above-w', 'above-h', 'far', 'astro', 'astro-1'):
        probes.append({'kind': 'wms-pixels', 'layer': rnd.choice(px_layers), 'rel': rel,
                       'col': rnd.choice(VAL_COL), 'row': rnd.choice(VAL_COL)})
        # the same relation with extra parameters: the limit holds whatever else the request carries
        probes.append({'kind': 'wms-pixels', 'layer': rnd.choice(px_layers), 'rel': rel, 'extras': rnd.choice(TILED_EXTRAS),
                       'col': rnd.choice(VAL_COL), 'row': rnd.choice(VAL_COL)})
        probes.append({'kind': 'wms-pixels', 'layer': rnd.choice(px_layers), 'rel': rel,
                       'extras': rnd.choice(TILED_EXTRAS + OTHER_EXTRAS + OTHER_EXTRAS),
                       'col': rnd.choice(VAL_COL), 'row': rnd.choice(VAL_COL)})
        if rel not in ('below', 'at-swapped'):
            probes.append({'kind': 'wms-pixels', 'layer': rnd.choice(px_layers), 'rel': rel, 'extras': rnd.choice(EXC_EXTRAS),
                           'col': rnd.choice(VAL_COL), 'row': rnd.choice(VAL_COL)})
    for rel in ('below', 'below', 'at', 'above', 'above', 'above2', 'far'):
        probes.append({'kind': 'wms-tiles', 'layer': rnd.choice(['a', 'b', 'a', 'b', 'ab']), 'rel': rel,
                       'lvl': rnd.choice(['last', 'last', 'mid', 'first']), 'col': rnd.choice(VAL_COL), 'row': rnd.choice(VAL_COL),
                       'wide': rnd.random() < 0.5})
    multi = opts.get('multi')
    if multi:
        extra = [('x', 'g1', r) for r in ('below', 'at', 'above', 'above2', 'far')] + [('x', 'g2', r) for r in ('below', 'above', 'far')]
        if multi.startswith('cascade'):
            extra += [('y', 'g1', r) for r in ('below', 'above', 'above2')]
        for layer, grid, rel in extra:
            probes.append({'kind': 'wms-tiles', 'layer': layer, 'grid': grid, 'rel': rel,
                           'lvl': rnd.choice(['last', 'last', 'mid']), 'col': rnd.choice(VAL_COL) if grid == 'g1' else 'mid',
                           'row': rnd.choice(VAL_COL) if grid == 'g1' else 'mid', 'wide': rnd.random() < 0.5})
    if multi and opts.get('fi'):
        # WMTS GetFeatureInfo against each matrix set of the two-grid layer: addresses outside the addressed matrix set,
        # among them addresses that exist in the other matrix set
        for svc in ('wmts-kvp', 'wmts-rest'):
            for mset in (0, 1):
                for axis in ('col', 'row'):
                    for off in ('-1', 'last+1', 'other-last', '10^18'):
                        a = {'lvl': rnd.choice(['last', 'mid', 'second']), 'col': rnd.choice(['0', 'last']), 'row': rnd.choice(['0', 'last'])}
                        a[axis] = off
                        probes.append(dict(a, kind='wmts-fi-sets', svc=svc, set=mset))
                for off in ('-1', 'last+1', '99'):
                    probes.append({'kind': 'wmts-fi-sets', 'svc': svc, 'set': mset, 'lvl': off, 'col': '0', 'row': '0'})
    for where in ('east', 'west', 'north', 'south', 'corner', 'beyond', 'far'):
        probes.append({'kind': 'wms-edge', 'layer': rnd.choice(['a', 'b']), 'where': where,
                       'lvl': rnd.choice(['last', 'mid', 'first'])})
    rnd.shuffle(probes)
    return probes


def cases():
    return st.builds(lambda g, o, s: {'grid': g, 'opts': o, 'probe_seed': s, 'probes': make_probes(s, o)},
                     grid_specs(), opt_specs(), st.integers(0, 2 ** 32 - 1))


# ------------------------------------------------------------------------------------------------
# configuration

def grid_conf(g):
    if g['kind'] == 'base':
        c = {'base': g['base'], 'num_levels': g['num_levels']}
        if g.get('tile_size'):
            c['tile_size'] = list(g['tile_size'])
        if g.get('res_factor'):
            c['res_factor'] = g['res_factor']
        return c
    c = {'srs': g['srs'], 'bbox': [float(v) for v in g['bbox']], 'tile_size': list(g['tile_size'])}
    if g.get('origin'):
        c['origin'] = g['origin']
    if g['mode'] == 'sqrt2':
        c['res_factor'] = 'sqrt2'
    if 'res' in g:
        c['res'] = [float(r) for r in g['res']]
    if 'num_levels' in g:
        c['num_levels'] = g['num_levels']
    if 'min_res' in g:
        c['min_res'] = g['min_res']
    return c


def grid_facts(g):
    """What the harness knows from the configuration it wrote: SRS and tile size."""
    if g['kind'] == 'base':
        ts = tuple(g.get('tile_size') or (256, 256))
        if g['base'] == 'GLOBAL_GEODETIC':
            return {'srs': 'EPSG:4326', 'tile_size': ts}
        return {'srs': 'EPSG:900913' if g['base'] == 'GLOBAL_MERCATOR' else 'EPSG:3857', 'tile_size': ts}
    return {'srs': g['srs'], 'tile_size': tuple(g['tile_size'])}


def is_sqrt2(g):
    return g.get('res_factor') == 'sqrt2' or g.get('mode') == 'sqrt2'


def rest_template(opts):
    if opts.get('dims'):
        return REST_DIM_TEMPLATES[tuple(sorted(opts['dims']))]
    return REST_TEMPLATES[opts['rest_template']]


def max_pixels(opts, facts):
    tw, th = facts['tile_size']
    return int(opts['max_px'][0] * tw), int(opts['max_px'][1] * th)


def second_grid(g, facts):
    """A grid in another SRS over (the envelope of) the area of the configured grid."""
    import numpy as np
    from mapproxy.grid import tile_grid
    c = grid_conf(g)
    if 'base' in c:
        base = {'GLOBAL_MERCATOR': dict(srs='EPSG:900913', origin='ll'), 'GLOBAL_WEBMERCATOR': dict(srs='EPSG:3857', origin='ul'),
                'GLOBAL_GEODETIC': dict(srs='EPSG:4326', origin='ll')}[c['base']]
        b = tuple(tile_grid(**base).bbox)
    else:
        b = tuple(c['bbox'])
    src = facts['srs']
    dst = 'EPSG:3857' if src == 'EPSG:4326' else 'EPSG:4326'
    if src == 'EPSG:4326':
        b = (b[0], max(b[1], -80.0), b[2], min(b[3], 80.0))
    t = np.linspace(0.0, 1.0, 11)
    xs = np.concatenate([b[0] + t * (b[2] - b[0]), b[0] + t * (b[2] - b[0]), np.full(11, b[0]), np.full(11, b[2])])
    ys = np.concatenate([np.full(11, b[1]), np.full(11, b[3]), b[1] + t * (b[3] - b[1]), b[1] + t * (b[3] - b[1])])
    X, Y = ground.transform(xs, ys, src, dst)
    ok = np.isfinite(X) & np.isfinite(Y)
    X, Y = X[ok], Y[ok]
    digits = 6 if dst == 'EPSG:4326' else 1
    bbox = [round(float(X.min()), digits), round(float(Y.min()), digits), round(float(X.max()), digits), round(float(Y.max()), digits)]
    return {'srs': dst, 'bbox': bbox, 'tile_size': [64, 64], 'num_levels': 5, 'origin': 'ul'}


def build_conf(case, facts, base_dir):
    o = case['opts']
    cache_root = os.path.join(base_dir, 'cache_data')
    wmts = {'kvp': True, 'restful': True}
    tpl = rest_template(o)
    if tpl:
        wmts['restful_template'] = tpl
    if o.get('fi'):
        wmts['featureinfo_formats'] = [{'mimetype': 'text/plain', 'suffix': 'txt'}]
    wm, hm = max_pixels(o, facts)
    tms = {'use_grid_names': bool(o['grid_names'])}
    if o.get('tms_origin'):
        tms['origin'] = o['tms_origin']
    layer_a = {'name': 'lyr_a', 'title': 'Layer A', 'sources': ['c_a']}
    if o.get('dims'):
        layer_a['dimensions'] = {d: {'values': list(DIM_VALUES[d][0]), 'default': DIM_VALUES[d][1]} for d in o['dims']}
    src = {'wms': 'src_w', 'tile': 'src_t'}

    def cache(name, source, fmt, backend):
        c = {'grids': ['g1'], 'sources': [src[source]], 'format': 'image/' + fmt, 'cache': backend}
        if source == 'wms':
            c['meta_size'] = [o['meta'][0], o['meta'][1]]
            c['meta_buffer'] = o['meta'][2]
        return c
    if o['b_backend'] == 'file':
        b_backend = {'type': 'file', 'directory_layout': o['b_layout'], 'directory': os.path.join(cache_root, 'fb')}
    elif o['b_backend'] == 'sqlite':
        b_backend = {'type': 'sqlite', 'directory': os.path.join(cache_root, 'sb')}
    else:
        b_backend = {'type': 'mbtiles', 'filename': os.path.join(cache_root, 'mb.mbtiles')}
    layers = [layer_a, {'name': 'lyr_b', 'title': 'Layer B', 'sources': ['c_b']}]
    direct = o.get('direct') or ''
    if 'd' in direct:
        layers.append({'name': 'lyr_d', 'title': 'Direct', 'sources': ['src_d']})
    if 'm' in direct:
        layers.append({'name': 'lyr_m', 'title': 'Mixed', 'sources': ['c_a', 'src_d']})
    sources = {'src_w': {'type': 'wms', 'wms_opts': {'featureinfo': bool(o.get('fi'))},
                         'req': {'url': 'http://wms.test/service?', 'layers': 'a'}},
               'src_t': {'type': 'tile', 'grid': 'g1', 'url': 'http://tiles.test/%(tms_path)s.%(format)s'}}
    if direct:
        sources['src_d'] = {'type': 'wms', 'req': {'url': 'http://wmsd.test/service?', 'layers': 'd', 'transparent': True}}
    grids = {'g1': grid_conf(case['grid'])}
    extra_caches = {}
    srs_list = set([facts['srs'], 'EPSG:4326'])
    if o.get('multi'):
        g2 = second_grid(case['grid'], facts)
        grids['g2'] = g2
        srs_list.add(g2['srs'])
        extra_caches['c_x'] = {'grids': ['g1', 'g2'], 'sources': ['src_w'], 'format': 'image/png', 'meta_size': [2, 2],
                               'meta_buffer': 0, 'cache': {'type': 'file', 'directory_layout': 'tc'}}
        layers.append({'name': 'lyr_x', 'title': 'Two grids', 'sources': ['c_x']})
        if o['multi'].startswith('cascade'):
            extra_caches['c_y'] = {'grids': ['g1'], 'sources': ['c_x' if o['multi'] == 'cascade-multi' else 'c_b'],
                                   'format': 'image/png', 'meta_size': [1, 1], 'meta_buffer': 0,
                                   'cache': {'type': 'file', 'directory_layout': 'tc', 'directory': os.path.join(cache_root, 'fy')}}
            layers.append({'name': 'lyr_y', 'title': 'Cache of cache', 'sources': ['c_y']})
    return {
        'services': {'tms': tms, 'kml': {'use_grid_names': bool(o['grid_names'])}, 'wmts': wmts,
                     'wms': {'srs': sorted(srs_list),
                             'max_output_pixels': [wm, hm]}},
        'layers': layers,
        'caches': {
            'c_a': cache('c_a', o['a_source'], o['a_fmt'],
                         {'type': 'file', 'directory_layout': o['layout'], 'directory': os.path.join(cache_root, 'fa')}),
            'c_b': cache('c_b', o['b_source'], o['b_fmt'], b_backend),
            **extra_caches
        },
        'sources': sources,
        'grids': grids,
        'globals': {'cache': {'max_tile_limit': int(o['max_tile_limit'])}},
    }


# ------------------------------------------------------------------------------------------------
# cache observation

SQLITE_EXT = ('.mbtile', '.mbtiles')
SQLITE_SIDE = ('-journal', '-wal', '-shm')


def snapshot(cache_root, lock_dir):
    """-> frozenset of entries: ('d', rel) directories, ('f', rel, size) files, ('r', rel, z, x, y, length) sqlite rows."""
    out = set()
    if not os.path.isdir(cache_root):
        return frozenset()
    for dirpath, dirnames, filenames in os.walk(cache_root):
        dirnames[:] = sorted(d for d in dirnames if os.path.join(dirpath, d) != lock_dir)
        rel_dir = os.path.relpath(dirpath, cache_root)
        if rel_dir != '.':
            out.add(('d', rel_dir))
        for f in sorted(filenames):
            p = os.path.join(dirpath, f)
            rel = os.path.normpath(os.path.join(rel_dir, f))
            if f.endswith(SQLITE_SIDE):
                continue
            if f.endswith(SQLITE_EXT):
                out.add(('f', rel, -1))
                out.update(('r', rel) + row for row in _sqlite_rows(p, rel))
                continue
            try:
                size = os.lstat(p).st_size
            except OSError:
                size = -3
            out.add(('f', rel, size))
    return frozenset(out)


def _sqlite_rows(path, rel):
    """rows of the tiles table (read-only connection); a database without tiles table yields the marker row (-2,)"""
    last = None
    for attempt in range(6):
        try:
            db = sqlite3.connect('file:%s?mode=ro' % quote(path), uri=True, timeout=10)
            try:
                return [tuple(r) for r in db.execute('SELECT zoom_level, tile_column, tile_row, length(tile_data) FROM tiles')]
            finally:
                db.close()
        except sqlite3.OperationalError as e:
            if 'no such table' in str(e):
                return [(-2,)]
            last = e
            import time
            time.sleep(0.2 * (attempt + 1))     # harness robustness only (busy database), never part of a verdict
    raise core.HarnessError('cannot read %s: %r' % (rel, last))


def decode_file_path(parts, layout):
    """path components below the cache directory (dimension directories already removed) -> (x, y, z) or None"""
    try:
        if layout == 'tc':
            if len(parts) != 7:
                return None
            z = int(parts[0])
            x = int(parts[1]) * 1000000 + int(parts[2]) * 1000 + int(parts[3])
            y = int(parts[4]) * 1000000 + int(parts[5]) * 1000 + int(parts[6].split('.')[0])
            return x, y, z
        if layout == 'mp':
            if len(parts) != 5:
                return None
            z = int(parts[0])
            x = int(parts[1]) * 10000 + int(parts[2])
            y = int(parts[3]) * 10000 + int(parts[4].split('.')[0])
            return x, y, z
        if layout == 'tms':
            if len(parts) != 3:
                return None
            return int(parts[1]), int(parts[2].split('.')[0]), int(parts[0])
    except ValueError:
        return None
    return None


# ------------------------------------------------------------------------------------------------
# advertised matrices

class Level(object):
    """One advertised level of one service: identifier as it appears in URLs and the column / row ranges.
    lo..last are valid, < lo and >= beyond invalid, in between not judged."""

    def __init__(self, ident, cols, rows):
        self.ident = ident
        self.cols = cols      # (lo, last, beyond)
        self.rows = rows


class Matrix(object):
    def __init__(self, levels, formats, id_format='%d'):
        self.levels = levels
        self.formats = formats
        self.id_format = id_format

    def idents(self):
        return [l.ident for l in self.levels]


def tms_matrix(tm):
    levels = []
    for i, ts in enumerate(tm.tilesets):
        ident = ts.href.rstrip('/').rsplit('/', 1)[1]
        a = tm.tile_range(i, 1)
        b = tm.tile_range(i, 0)
        if a[0] > a[1] or a[2] > a[3]:
            continue
        levels.append(Level(ident, (a[0], a[1], b[1] + 1), (a[2], a[3], b[3] + 1)))
    return Matrix(levels, [tm.extension])


def shifted_matrix(m, profile):
    """/tiles and /kml: same tiles as TMS; the global profiles start one level earlier with a single tile."""
    shift = 1 if (profile or '').startswith('global-') else 0
    levels = []
    if shift:
        levels.append(Level('0', (0, 0, 1), (0, 0, 1)))
    for l in m.levels:
        try:
            ident = str(int(l.ident) + shift)
        except ValueError:
            return None
        levels.append(Level(ident, l.cols, l.rows))
    return Matrix(levels, m.formats)


def wmts_matrix(client, layer):
    lyr = client.layers.get(layer)
    if lyr is None or not lyr.links:
        return None, None
    tms = lyr.links[0][0]
    levels = []
    for mi, m in enumerate(client.matrix_sets[tms].matrices):
        c_lo, c_hi, r_lo, r_hi = client.tile_range(layer, tms, mi)
        levels.append(Level(m.identifier, (c_lo, c_hi, c_hi + 1), (r_lo, r_hi, r_hi + 1)))
    return Matrix(levels, list(lyr.formats), id_format='%02d'), tms


def wmts_matrices(client, layer):
    """every matrix set linked by a layer: [(matrix set identifier, Matrix)] in document order"""
    lyr = client.layers.get(layer)
    out = []
    for tms, _ in (lyr.links if lyr is not None else []):
        levels = []
        for mi, m in enumerate(client.matrix_sets[tms].matrices):
            c_lo, c_hi, r_lo, r_hi = client.tile_range(layer, tms, mi)
            levels.append(Level(m.identifier, (c_lo, c_hi, c_hi + 1), (r_lo, r_hi, r_hi + 1)))
        out.append((tms, Matrix(levels, list(lyr.formats), id_format='%02d')))
    return out


def pick(sel, rng):
    lo, last, beyond = rng
    if sel == '-1':
        return lo - 1
    if sel == '0':
        return lo
    if sel == 'last':
        return last
    if sel == 'last+1':
        return beyond
    if sel == 'mid':
        return (lo + last) // 2
    if sel == '2^31':
        return 2 ** 31
    if sel == '10^18':
        return 10 ** 18
    raise core.HarnessError('unknown selector %r' % (sel,))


def judge_index(v, rng):
    lo, last, beyond = rng
    if lo <= v <= last:
        return 'valid'
    if v < lo or v >= beyond:
        return 'invalid'
    return 'ambiguous'


# ------------------------------------------------------------------------------------------------
# answers

EXC_RE = re.compile(rb'<(?:\w+:)?(ServiceExceptionReport|ExceptionReport|TileMapServerError|ServiceException|WMTException)\b')


def classify(res):
    """-> (class, detail): 'raised' | 'error' | 'image' | 'blank' | 'other'"""
    if res.raised is not None:
        return 'raised', res.raised['type']
    ct = res.content_type
    if res.code is None:
        return 'raised', 'no-status'
    if res.code >= 400:
        return 'error', str(res.code)
    if ('xml' in ct or ct == '') and EXC_RE.search(res.body[:2000]):
        return 'error', 'exception-document'
    if 200 <= res.code < 300 and ct.startswith('image/'):
        try:
            img = ground.decode_image(res.body)
        except Exception:   # noqa - a body that is not an image is an answer class, not a harness problem
            return 'other', 'undecodable-image'
        arr = ground.to_rgba_array(img)
        if (arr[..., 3] == 0).all() or (arr == arr[0, 0]).all():
            return 'blank', str(res.code)
        return 'image', str(res.code)
    return 'other', '%s %s' % (res.code, ct)


# ------------------------------------------------------------------------------------------------

class ConfigRun(object):
    def __init__(self, case, stats, exclude_known=True):
        self.case = case
        self.stats = stats
        self.opts = case['opts']
        self.facts = grid_facts(case['grid'])
        self.listed_open = core.open_signatures(PROPERTY)
        self.open = set(self.listed_open) if exclude_known else set()
        # test knob for the "quiet with the proposed fix" runs on a patched scratch copy
        self.open -= set(filter(None, os.environ.get('VERIF_ASSUME_FIXED', '').split(',')))
        self.violations = []
        self.seen_sigs = set()
        self.conf_key = core.case_hash({'grid': case['grid'], 'opts': case['opts']})

    # -- plumbing ------------------------------------------------------------------------------------
    def violation(self, sig, msg, probe, req=None):
        if sig in self.seen_sigs:
            return
        self.seen_sigs.add(sig)
        case = {'grid': self.case['grid'], 'opts': self.case['opts'], 'probes': [probe] if probe is not None else []}
        if req is not None:
            msg = '%s [%s%s]' % (msg, req[0], ('?' + req[1]) if req[1] else '')
        self.violations.append(core.Violation(sig, msg, case))

    def base_classes(self):
        g = self.case['grid']
        o = self.opts
        c = ['srs:' + self.facts['srs'], 'origin:' + ('ul' if self.ref.ul else 'll')]
        if g['kind'] == 'base':
            c += ['grid:' + g['base'], 'mode:' + ('sqrt2' if g.get('res_factor') else 'f2')]
        else:
            c += ['grid:custom-' + g['flavour'], 'mode:' + g['mode']]
        c += ['a:file-%s/%s/%s' % (o['layout'], o['a_source'], o['a_fmt']),
              'b:%s/%s/%s' % (o['b_backend'] if o['b_backend'] != 'file' else 'file-' + o['b_layout'], o['b_source'], o['b_fmt']),
              'dims:%s' % ('+'.join(o['dims']) if o.get('dims') else 'none'),
              'uncached-layers:%s' % (o.get('direct') or 'none'), 'multi-grid:%s' % (o.get('multi') or 'none')]
        return c

    def run(self):
        base_dir = tempfile.mkdtemp(prefix='c16_')
        self.cache_root = os.path.realpath(os.path.join(base_dir, 'cache_data'))
        self.lock_dir = os.path.join(self.cache_root, 'tile_locks')
        up = ground.Upstream(None)
        self.up = up
        obs = None
        try:
            with up:
                conf = build_conf(self.case, self.facts, os.path.realpath(base_dir))
                try:
                    app = ground.make_app(conf, os.path.realpath(base_dir))
                except Exception as e:
                    from mapproxy.config.loader import ConfigurationError
                    if isinstance(e, ConfigurationError):
                        self.stats.excluded['configuration-rejected'] += 1
                        return []
                    raise
                self.app = app
                self._grid_model(app)
                g = ground.Ground(self.facts['srs'], r0=float(self.ref.res[-1]), period_px=52.0,
                                  x0=float(self.ref.bbox[0]), y0=float(self.ref.bbox[1]))
                up.ground = g
                up.add_wms('wms.test', ground=g)

                def capped(info, _g=g):
                    # the direct source would be asked for the full output size: never render more than 4 Mpx in the harness
                    w, h = info['size']
                    if w * h > 4000000:
                        from PIL import Image
                        return Image.new('RGB', (1, 1), (90, 120, 150))
                    return _g.render(info['bbox'], info['size'], info['srs'])
                up.add_wms('wmsd.test', ground=g, render_fn=capped)
                up.add_tiles('tiles.test', self.ref, self.facts['srs'], 'tms', ground=g)
                self.fetch = refclient.wsgi_fetcher(app)
                self._load_documents()
                up.clear()
                for c in self.base_classes():
                    self.stats.classes['config-' + c] += 1
                self.stats.classes['config:total'] += 1
                obs = sandbox.Observer([self.cache_root], probes=False, resolved=True)
                self.obs = obs
                self.snap = snapshot(self.cache_root, self.lock_dir)
                for probe in self.case['probes']:
                    self._do_probe(probe)
                if obs.hook_errors:
                    raise core.HarnessError('sandbox hook errors:\n' + '\n'.join(obs.hook_errors[:3]))
        finally:
            if obs is not None and sandbox.armed is obs:
                obs.disarm()
            shutil.rmtree(base_dir, ignore_errors=True)
        return self.violations

    def _grid_model(self, app):
        """RefGrid of the loaded grid g1 (harness plumbing: used for the synthetic tile server, the in-grid verdict on
        stored tiles / upstream URLs and to construct GetMap requests)."""
        handler = app.handlers.get('tms')
        self.refs = {}
        for lyr in handler.layers.values():
            grid = lyr.tile_manager.grid
            if grid.name not in self.refs:
                self.refs[grid.name] = (RefGrid.from_grid(grid), grid.srs.srs_code)
        if 'g1' not in self.refs:
            raise core.HarnessError('no tile layer on grid g1 loaded')
        self.ref = self.refs['g1'][0]
        self.n_levels = len(self.ref.res)
        self.cur_srs = self.facts['srs']

    def _load_documents(self):
        f = self.fetch
        self.mx = {}          # (service family, layer) -> Matrix | None
        self.paths = {}       # (service, layer) -> url path prefix
        self.tms_profile = None
        tms = refclient.TMSClient(f, 'http://localhost/tms/1.0.0')
        for layer in ('a', 'b'):
            name = 'lyr_' + layer
            refs = [r for r in tms.tilemap_refs if re.search(r'/%s(_|/|$)' % name, urlsplit(r.href).path)]
            if len(refs) != 1:
                raise core.HarnessError('TMS root resource lists %d TileMaps for %s' % (len(refs), name))
            tm = tms.tilemap(refs[0].href)
            self.tms_profile = tm.profile
            m = tms_matrix(tm)
            if not m.levels:
                raise core.HarnessError('TileMap of %s advertises no address' % name)
            path = urlsplit(tm.href).path.rstrip('/')
            self.mx[('tms', layer)] = m
            sm = shifted_matrix(m, tm.profile)
            if sm is None:
                raise core.HarnessError('TileSet hrefs are not numeric')
            self.mx[('tiles', layer)] = sm
            self.mx[('kml', layer)] = sm
            self.paths[('tms', layer)] = path
            self.paths[('tiles', layer)] = path.replace('/tms/1.0.0/', '/tiles/', 1)
            self.paths[('kml', layer)] = path.replace('/tms/1.0.0/', '/kml/', 1)
        self.wmts = {}
        for enc, url in (('rest', 'http://localhost/wmts/1.0.0/WMTSCapabilities.xml'),
                         ('kvp', 'http://localhost/service?SERVICE=WMTS&REQUEST=GetCapabilities&VERSION=1.0.0')):
            try:
                self.wmts[enc] = refclient.WMTSClient(f, url)
            except refclient.ClientError:
                self.stats.notes['wmts-%s-capabilities-unreadable' % enc] += 1
        if 'rest' not in self.wmts:
            raise core.HarnessError('RESTful WMTS capabilities unreadable')
        self.matrix_set = {}
        for enc in ('kvp', 'rest'):
            client = self.wmts.get(enc) or self.wmts['rest']
            for layer in ('a', 'b'):
                m, tms_name = wmts_matrix(client, 'lyr_' + layer)
                self.mx[('wmts-' + enc, layer)] = m
                self.matrix_set[('wmts-' + enc, layer)] = tms_name or 'g1'
        self.kvp_path = '/service'
        if 'kvp' in self.wmts and self.wmts['kvp'].kvp_url:
            self.kvp_path = urlsplit(self.wmts['kvp'].kvp_url).path or '/service'
        elif self.wmts['rest'].kvp_url:
            self.kvp_path = urlsplit(self.wmts['rest'].kvp_url).path or '/service'

    # -- one request with all observers ------------------------------------------------------------------
    def observe(self, path, query):
        self.up.clear()
        self.obs.clear()
        with self.obs:
            res = wsgicall.request(self.app, path=path, query=query)
        events = [e for e in self.obs.events
                  if e.kind == sandbox.WRITE and e.op != 'sqlite3.connect'
                  and sandbox.is_under(e.real, [self.cache_root]) and not sandbox.is_under(e.real, [self.lock_dir])]
        after = snapshot(self.cache_root, self.lock_dir)
        before = self.snap
        self.snap = after
        return res, list(self.up.log), events, after - before, before - after

    def global_checks(self, probe, req, calls, added, what):
        """every upstream tile URL and every stored path / row decodes to an address inside the grid"""
        for c in calls:
            if c.kind == 'tile' and c.info.get('in_grid') is not True:
                self.violation('C16/%s/upstream-tile-outside-grid' % what,
                               'upstream tile request %s decodes to %r, outside the grid (sizes %r)'
                               % (c.url, c.info.get('tile'), self.ref.grid_sizes), probe, req)
                return False
            if c.kind in ('other', 'unknown'):
                self.violation('C16/%s/upstream-url-undecodable' % what, 'upstream request %s is not a tile address / map request'
                               % c.url, probe, req)
                return False
        for e in sorted(added, key=repr):
            bad = self.stored_entry_problem(e)
            if bad:
                self.violation('C16/%s/stored-outside-grid' % what, 'cache entry %r: %s' % (e[1:], bad), probe, req)
                return False
        return True

    def stored_entry_problem(self, e):
        o = self.opts
        ref = self.refs['g1'][0]
        if e[0] == 'r':
            if len(e) < 5:
                return None     # marker of a database without tiles table
            z, x, y = e[2], e[3], e[4]
            rel = e[1]
            if rel.startswith('sb' + os.sep):
                name = os.path.basename(rel).split('.')[0]
                if not name.isdigit() or int(name) != z:
                    return 'row of level %r in the database file of level %r' % (z, name)
            return self._addr_problem(x, y, z)
        if e[0] != 'f' or e[2] in (-1, -2):
            return None
        parts = e[1].split(os.sep)
        top = parts[0]
        if top == 'fa':
            layout, dims = o['layout'], (o.get('dims') or [])
        elif top == 'fb':
            layout, dims = o['b_layout'], []
        elif top == 'fy':
            layout, dims = 'tc', []
        elif top.startswith('c_x_') and o.get('multi'):
            layout, dims = 'tc', []
            if top[4:] != self.facts['srs'].replace(':', ''):
                ref = self.refs.get('g2', (None,))[0]
                if ref is None:
                    return 'file of a grid that is not configured'
        else:
            return 'unexpected file'
        parts = parts[1:]
        seen = set()
        while parts and '-' in parts[0] and parts[0].split('-', 1)[0] in dims:
            name, value = parts[0].split('-', 1)
            if value not in DIM_VALUES[name][0]:
                return 'dimension directory %r names a value that is not offered' % parts[0]
            seen.add(name)
            parts = parts[1:]
        # (requests that carry no dimension value - WMS GetMap - are stored without dimension directories)
        addr = decode_file_path(parts, layout)
        if addr is None:
            return 'path does not decode to a tile address in layout %s' % layout
        return self._addr_problem(*addr, ref=ref)

    def _addr_problem(self, x, y, z, ref=None):
        ref = ref or self.refs['g1'][0]
        if not isinstance(z, int) or not (0 <= z < len(ref.res)):
            return 'level %r outside 0..%d' % (z, len(ref.res) - 1)
        if not ref.in_grid(x, y, z):
            return 'tile (%r, %r) of level %d outside the grid of %r tiles' % (x, y, z, ref.grid_sizes[z])
        return None

    # -- probes ---------------------------------------------------------------------------------------------
    def _do_probe(self, probe):
        kind = probe['kind']
        if kind in ('tile', 'wmts-fi'):
            return self._tile_probe(probe)
        if kind == 'wms-pixels':
            return self._wms_pixels(probe)
        if kind == 'wmts-fi-sets':
            return self._fi_sets_probe(probe)
        if kind == 'wms-tiles':
            return self._wms_tiles(probe)
        if kind == 'wms-edge':
            return self._wms_edge(probe)
        raise core.HarnessError('unknown probe kind %r' % (kind,))

    def _family(self, svc):
        return 'tiles' if svc.startswith('tiles') else svc

    def _tile_probe(self, p):
        svc, layer = p['svc'], p['layer']
        fam = self._family(svc)
        m = self.mx.get((fam, layer))
        offered = m is not None
        if not offered:
            # the layer is not offered by this service (WMTS on a grid that cannot be addressed from the north-west):
            # every request must be refused; addresses are taken from the TMS matrix
            m = self.mx[('tms', layer)]
            m = Matrix(m.levels, ['png'], id_format='%02d')
        lv_sel = p['lvl']
        n = len(m.levels)
        lvl_state = 'valid'
        if lv_sel in VAL_LVL:
            li = {'first': 0, 'second': min(1, n - 1), 'last': n - 1, 'mid': n // 2}[lv_sel]
            ident = m.levels[li].ident
        else:
            lvl_state = 'invalid'
            if lv_sel == '-1':
                ident, li = '-1', 0
            elif lv_sel == 'last+1':
                try:
                    ident = m.id_format % (int(m.levels[-1].ident) + 1)
                except ValueError:
                    raise core.HarnessError('non-numeric level identifier %r' % m.levels[-1].ident)
                li = n - 1
            elif lv_sel == '99':
                ident, li = '99', n - 1
            else:
                ident, li = NONNUM[p.get('nonnum', 0) % len(NONNUM)], n - 1
            if ident in m.idents():
                lvl_state = 'valid'     # cannot happen with the lattices above; kept for safety
                li = m.idents().index(ident)
        L = m.levels[li]
        col = pick(p['col'], L.cols)
        row = pick(p['row'], L.rows)
        states = [lvl_state, judge_index(col, L.cols), judge_index(row, L.rows)]
        # format
        fmt_state = 'valid'
        offered_fmt = m.formats[0] if m.formats else 'image/png'
        fmt = offered_fmt
        if p.get('fmt', 'ok') != 'ok':
            pool = OFF_MIME if svc == 'wmts-kvp' else OFF_EXT
            cand = [f for f in pool if f not in m.formats and ('image/' + f) not in m.formats and f.split('/')[-1] not in m.formats]
            fmt = cand[p['fmt'] % len(cand)]
            fmt_state = 'invalid'
        # dimensions
        dims = {}
        dim_state = 'valid'
        layer_dims = (self.opts.get('dims') or []) if layer == 'a' else []
        if p.get('dim') == 'off' and layer_dims:
            dname = p.get('dim_name') if p.get('dim_name') in layer_dims else layer_dims[0]
            dims[dname] = OFF_DIM[p.get('dim_off', 0) % len(OFF_DIM)]
            dim_state = 'invalid'
        elif layer_dims and p.get('dim') not in (None, 'omit'):
            for d in layer_dims:
                dims[d] = 'default' if p['dim'] == 'default' else DIM_VALUES[d][0][int(p['dim'][1:]) % 3]
        if svc not in ('wmts-kvp', 'wmts-rest'):
            if dim_state == 'invalid':
                return      # the other services carry no dimension values
            dims = {}
        is_fi = p['kind'] == 'wmts-fi'
        if is_fi:
            req = self._fi_request(svc, layer, ident, col, row, offered_fmt)
        else:
            req = self._tile_request(svc, layer, ident, col, row, fmt, dims, p)
        if req is None:
            self.stats.notes['no-url:' + svc] += 1
            return
        all_states = states + [fmt_state, dim_state]
        if not offered:
            expect = 'refuse'
        elif 'invalid' in all_states:
            expect = 'refuse'
        elif 'ambiguous' in all_states:
            expect = 'not-judged'
        else:
            expect = 'serve'
        # known finding: WMTS on sqrt2 grids maps TileMatrix z to level 2z
        if svc.startswith('wmts') and offered and SIG_WMTS_SQRT2 in self.open and is_sqrt2(self.case['grid']) \
                and not (lvl_state == 'valid' and li == 0):
            self.stats.excluded['known:wmts-level>0-of-sqrt2-grid'] += 1
            return
        sig = None
        if svc.startswith('wmts') and is_sqrt2(self.case['grid']) and not (lvl_state == 'valid' and li == 0) \
                and SIG_WMTS_SQRT2 in self.listed_open:
            # root cause shared with C02 (while that finding is listed as open): TileServiceGrid.internal_tile_coord doubles
            # the level of sqrt2 grids for WMTS too, the capabilities listed every level
            sig = SIG_WMTS_SQRT2
        if is_fi:
            if expect != 'refuse':
                return      # where a valid GetFeatureInfo lands is the business of C01
            sig = SIG_WMTS_FI
            queryable = bool(self.opts.get('fi')) and self.opts[layer + '_source'] == 'wms' and offered
            if queryable and SIG_WMTS_FI in self.open:
                self.stats.excluded['known:wmts-getfeatureinfo-out-of-matrix-address-on-queryable-layer'] += 1
                return
        near = (p['col'] in ('-1', '0', 'last', 'last+1') or p['row'] in ('-1', '0', 'last', 'last+1')
                or lv_sel in ('-1', 'first', 'last', 'last+1'))
        astro = p['col'] in ('2^31', '10^18') or p['row'] in ('2^31', '10^18') or lv_sel in ('99', 'nonnum')
        offs = []
        if lvl_state == 'invalid':
            offs.append('level:' + lv_sel)
        if states[1] != 'valid':
            offs.append('col:' + p['col'])
        if states[2] != 'valid':
            offs.append('row:' + p['row'])
        if fmt_state == 'invalid':
            offs.append('format')
        if dim_state == 'invalid':
            offs.append('dimension')
        what = '+'.join(offs) if offs else 'valid'
        classes = ['svc:' + svc + ('-featureinfo' if is_fi else ''), 'layer:' + layer, 'expect:' + expect,
                   'probe:' + ('featureinfo-' if is_fi else '') + what]
        if not offered:
            classes.append('layer-not-offered-by-service')
        if dims and dim_state == 'valid':
            classes.append('dimension-value:' + str(p.get('dim')))
        self._judge(p, req, expect, classes, nontrivial=bool(near or astro or fmt_state == 'invalid' or dim_state == 'invalid'),
                    svc=svc + ('-featureinfo' if is_fi else ''), what=what if len(offs) <= 1 else 'multi', sig_override=sig)

    def _fi_sets_probe(self, p):
        """GetFeatureInfo on the layer with two matrix sets: the address is judged against the matrix set the request names"""
        if not (self.opts.get('multi') and self.opts.get('fi')):
            return
        svc = p['svc']
        client = self.wmts.get(svc.split('-')[1]) or self.wmts['rest']
        sets = wmts_matrices(client, 'lyr_x')
        if len(sets) < 2:
            self.stats.notes['two-grid-layer-has-%d-wmts-matrix-sets' % len(sets)] += 1
            return
        (name, m), (_, other) = sets[p['set'] % 2], sets[(p['set'] + 1) % 2]
        n = len(m.levels)
        lv = p['lvl']
        if lv in VAL_LVL:
            li = {'first': 0, 'second': min(1, n - 1), 'last': n - 1, 'mid': n // 2}[lv]
            ident, lvl_ok = m.levels[li].ident, True
        else:
            li, lvl_ok = n - 1, False
            ident = {'-1': '-1', '99': '99'}.get(lv) or m.id_format % (int(m.levels[-1].ident) + 1)
            if ident in m.idents():
                return
        L = m.levels[li]
        vals = {}
        for axis, rng in (('col', L.cols), ('row', L.rows)):
            sel = p[axis]
            if sel == 'other-last':
                if li >= len(other.levels):
                    return
                o = other.levels[li].cols if axis == 'col' else other.levels[li].rows
                if o[1] <= rng[1]:
                    self.stats.notes['fi-sets:other-matrix-not-larger'] += 1
                    return
                vals[axis] = o[1]       # exists in the other matrix set, not in this one
            else:
                vals[axis] = pick(sel, rng)
        if lvl_ok and judge_index(vals['col'], L.cols) == 'valid' and judge_index(vals['row'], L.rows) == 'valid':
            return
        in_other = li < len(other.levels) and lvl_ok and judge_index(vals['col'], other.levels[li].cols) == 'valid' \
            and judge_index(vals['row'], other.levels[li].rows) == 'valid'
        req = self._fi_request(svc, 'x', ident, vals['col'], vals['row'], m.formats[0] if m.formats else 'image/png', tms_name=name)
        what = 'other-matrix-set-address' if in_other else 'out-of-matrix-address'
        self._judge(p, req, 'refuse', ['svc:%s-featureinfo' % svc, 'layer:x', 'expect:refuse',
                                       'probe:featureinfo-matrix-set-%d-%s' % (p['set'] % 2, what)],
                    nontrivial=True, svc=svc + '-featureinfo', what='two-matrix-sets/' + what)

    def _fi_request(self, svc, layer, ident, col, row, fmt, tms_name=None):
        name = 'lyr_' + layer
        tms_name = tms_name or self.matrix_set[(svc, layer)]
        if svc == 'wmts-kvp':
            params = [('SERVICE', 'WMTS'), ('REQUEST', 'GetFeatureInfo'), ('VERSION', '1.0.0'), ('LAYER', name), ('STYLE', 'default'),
                      ('TILEMATRIXSET', tms_name), ('TILEMATRIX', ident), ('TILEROW', str(row)), ('TILECOL', str(col)),
                      ('FORMAT', fmt if '/' in fmt else 'image/' + fmt), ('INFOFORMAT', 'text/plain'), ('I', '3'), ('J', '5')]
            return self.kvp_path, '&'.join('%s=%s' % (k, quote(v, safe='/:,')) for k, v in params)
        # the RESTful feature info template is not configured, i.e. the documented default
        return '/wmts/%s/%s/%s/%d/%d/3/5.txt' % (name, tms_name, ident, col, row), ''

    def _tile_request(self, svc, layer, ident, col, row, fmt, dims, p):
        name = 'lyr_' + layer
        if svc in ('tms', 'tiles', 'tiles-sw', 'tiles-nw', 'kml'):
            path = '%s/%s/%d/%d.%s' % (self.paths[(self._family(svc), layer)], ident, col, row, fmt)
            query = {'tiles-sw': 'origin=sw', 'tiles-nw': 'origin=nw'}.get(svc, '')
            return path, query
        tms_name = self.matrix_set[(svc, layer)]
        if svc == 'wmts-kvp':
            params = [('SERVICE', 'WMTS'), ('REQUEST', 'GetTile'), ('VERSION', '1.0.0'), ('LAYER', name), ('STYLE', 'default'),
                      ('TILEMATRIXSET', tms_name), ('TILEMATRIX', ident), ('TILEROW', str(row)), ('TILECOL', str(col)),
                      ('FORMAT', fmt if '/' in fmt else 'image/' + fmt)]
            for d, v in sorted(dims.items()):
                params.append((d.upper(), v))
            return self.kvp_path, '&'.join('%s=%s' % (k, quote(v, safe='/:,')) for k, v in params)
        # RESTful: the template of the document; for a layer the document does not list, the configured template
        lyr = self.wmts['rest'].layers.get(name)
        ext = fmt.split('/')[-1]
        if lyr is not None and lyr.tile_templates:
            tpl = urlsplit(lyr.tile_templates[0][1]).path
            offered_ext = (lyr.formats[0] if lyr.formats else 'image/png').split('/')[-1]
            if ext != offered_ext:
                if not tpl.endswith('.' + offered_ext):
                    return None
                tpl = tpl[:-len(offered_ext)] + ext
        else:
            tpl = '/wmts' + (rest_template(self.opts) or '/{Layer}/{TileMatrixSet}/{TileMatrix}/{TileCol}/{TileRow}.{Format}')
            tpl = tpl.replace('{Layer}', name).replace('{Format}', ext)
        subst = {'TileMatrixSet': tms_name, 'TileMatrix': ident, 'TileRow': str(row), 'TileCol': str(col), 'Style': 'default'}
        for k, v in subst.items():
            tpl = tpl.replace('{%s}' % k, v)

        def dim_value(mo):
            return quote(dims.get(mo.group(1).lower(), 'default'), safe=':,')
        tpl = re.sub(r'\{(\w+)\}', dim_value, tpl)
        return tpl, ''

    def _judge(self, probe, req, expect, classes, nontrivial, svc, what, sig_override=None, blank_ok=True):
        res, calls, events, added, removed = self.observe(req[0], req[1])
        cls, detail = classify(res)
        if cls == 'raised':
            self.stats.notes['exception-escaped-application:' + detail] += 1
        classes = classes + ['answer:%s/%s' % (cls, detail if cls in ('error', 'raised', 'other') else '')]
        key = (self.conf_key, req[0], req[1])
        self.stats.case(key=key, nontrivial=nontrivial, classes=classes,
                        sample={'grid': self.case['grid'], 'request': '%s?%s' % req if req[1] else req[0], 'expect': expect,
                                'answer': '%s %s' % (cls, detail), 'upstream_calls': len(calls)})
        ok = self.global_checks(probe, req, calls, added, svc)
        if not ok:
            return
        if expect in ('refuse', 'refuse-or-any', 'refuse-any-answer'):
            refused = cls in ('error', 'raised')
            if refused or expect != 'refuse-or-any':
                if calls:
                    self.violation(sig_override or 'C16/%s/%s/upstream-request' % (svc, what),
                                   'request that must be refused (%s) caused %d upstream request(s), first %s; answer %s %s'
                                   % (what, len(calls), calls[0].url, cls, detail), probe, req)
                    return
                if events or added or removed:
                    ev = ['%s %s' % (e.op, os.path.relpath(e.real, self.cache_root)) for e in events[:3]]
                    self.violation(sig_override or 'C16/%s/%s/cache-write' % (svc, what),
                                   'request that must be refused (%s) wrote to the cache: events %r, new entries %r, removed %r; answer %s %s'
                                   % (what, ev, sorted(added, key=repr)[:3], sorted(removed, key=repr)[:3], cls, detail), probe, req)
                    return
            if expect == 'refuse':
                if cls == 'blank' and blank_ok:
                    self.stats.notes['blank-tile-for-invalid-request(tolerated):' + svc] += 1
                elif cls in ('image', 'other', 'blank'):
                    self.violation(sig_override or 'C16/%s/%s/served' % (svc, what),
                                   'request that must be refused (%s) was answered with %s %s (%d bytes)'
                                   % (what, cls, detail, len(res.body)), probe, req)
            elif expect == 'refuse-any-answer':
                self.stats.notes['over-pixel-limit-with-image-exceptions:answer-%s' % cls] += 1
            elif not refused:
                self.stats.notes['at-tile-limit:served'] += 1
            else:
                self.stats.notes['at-tile-limit:refused'] += 1
        elif expect == 'serve':
            if cls not in ('image',):
                body = res.body[:200].decode('latin-1') if cls != 'blank' else 'blank image'
                self.violation(sig_override or 'C16/%s/valid-request-not-served' % svc,
                               'valid request (last valid address / below every limit) answered with %s %s: %s' % (cls, detail, body),
                               probe, req)

    # -- WMS ---------------------------------------------------------------------------------------------------
    def _layers(self, p):
        return {'a': 'lyr_a', 'b': 'lyr_b', 'ab': 'lyr_a,lyr_b', 'd': 'lyr_d', 'm': 'lyr_m', 'ad': 'lyr_a,lyr_d',
                'x': 'lyr_x', 'y': 'lyr_y'}[p['layer']]

    def _getmap(self, layers, bbox, size, fmt='image/png', extras=None, v130=False):
        # (1.3.0 is only used for over-limit requests, which are refused before the axis order of BBOX matters)
        params = [('SERVICE', 'WMS'), ('VERSION', '1.3.0' if v130 else '1.1.1'), ('REQUEST', 'GetMap'), ('LAYERS', layers), ('STYLES', ''),
                  ('CRS' if v130 else 'SRS', self.cur_srs), ('BBOX', ','.join(repr(float(v)) for v in bbox)),
                  ('WIDTH', str(size[0])), ('HEIGHT', str(size[1])), ('FORMAT', fmt)]
        query = '&'.join('%s=%s' % (k, quote(v, safe='/:,')) for k, v in params)
        return '/service', query + ('&' + extras if extras else '')

    def _inside_grid(self, rect):
        b = self.ref.bbox
        return rect[0] >= b[0] and rect[1] >= b[1] and rect[2] <= b[2] and rect[3] <= b[3]

    def _tiles_rect(self, c0, r0, nx, ny, z, inset=Fr(1, 4)):
        a = self.ref.tile_rect(c0, r0, z)
        b = self.ref.tile_rect(c0 + nx - 1, r0 + ny - 1, z)
        sx, sy = self.ref.span(z)
        return (min(a[0], b[0]) + inset * sx, min(a[1], b[1]) + inset * sy, max(a[2], b[2]) - inset * sx, max(a[3], b[3]) - inset * sy)

    def _place(self, sel, n_total, n_used):
        hi = n_total - n_used
        if hi < 0:
            return None
        return {'0': 0, 'last': hi, 'mid': hi // 2}[sel]

    def _placed_rect(self, p, nx, ny, z, inset=Fr(1, 4)):
        """rectangle inside the grid bbox that reaches at least 0.1 tile into each of the nx x ny tiles (and no other)"""
        gx, gy = self.ref.grid_sizes[z]
        c0, r0 = self._place(p['col'], gx, nx), self._place(p['row'], gy, ny)
        if c0 is None or r0 is None:
            return None
        sx, sy = self.ref.span(z)
        b = self.ref.bbox
        eps_x, eps_y = sx / 1000, sy / 1000
        for dc, dr in ((0, 0), (-1, 0), (0, -1), (-1, -1), (1, 0), (0, 1), (1, 1)):
            c, r = c0 + dc, r0 + dr
            if c < 0 or r < 0 or c + nx > gx or r + ny > gy:
                continue
            u = self._tiles_rect(c, r, nx, ny, z, Fr(0))
            rect = (max(u[0] + inset * sx, b[0] + eps_x), max(u[1] + inset * sy, b[1] + eps_y),
                    min(u[2] - inset * sx, b[2] - eps_x), min(u[3] - inset * sy, b[3] - eps_y))
            need_x = sx / 10 if nx > 1 else Fr(0)
            need_y = sy / 10 if ny > 1 else Fr(0)
            # the clipped rectangle must still reach into the first and the last column / row
            if rect[0] <= u[0] + sx - need_x and rect[2] >= u[2] - sx + need_x and \
                    rect[1] <= u[1] + sy - need_y and rect[3] >= u[3] - sy + need_y and \
                    rect[2] - rect[0] >= sx / 10 and rect[3] - rect[1] >= sy / 10:
                return rect
        return None

    def _wms_pixels(self, p):
        wm, hm = max_pixels(self.opts, self.facts)
        P = wm * hm
        rel = p['rel']
        size = {'below': (wm, hm - 1), 'at': (wm, hm), 'at-swapped': (hm, wm), 'above-w': (wm + 1, hm), 'above-h': (wm, hm + 1),
                'far': (4 * wm, 4 * hm), 'astro': (10 ** 9, 10 ** 9), 'astro-1': (2 ** 31, 1)}[rel]
        z = self.n_levels - 1
        rect = self._placed_rect(p, 1, 1, z, inset=Fr(1, 10))
        if rect is None:
            self.stats.notes['wms-pixels:no-tile-inside-grid-bbox'] += 1
            return
        if (p['layer'] in ('d', 'ad') and 'd' not in (self.opts.get('direct') or '')) or \
                (p['layer'] == 'm' and 'm' not in (self.opts.get('direct') or '')):
            return      # (hand-edited case)
        extras = p.get('extras')
        v130 = bool(extras) and extras.startswith('v130:')
        if v130:
            extras = extras[5:]
        low = (extras or '').lower()
        tiled = 'tiled=true' in low
        in_image = 'exceptions=' in low and ('image' in low or 'blank' in low)
        if in_image and size[0] * size[1] > 20000000:
            # an exception image of the requested size must never be produced (check_map_request sets prevent_image_exception);
            # should it be produced nevertheless, it must not hurt the harness: astronomic sizes are replaced by 64 x the limit
            k = 8
            while k > 1 and k * wm * k * hm > 20000000:
                k -= 1
            size = (k * wm + 1, k * hm)
        px = size[0] * size[1]
        req = self._getmap(self._layers(p), rect, size, extras=extras, v130=v130 and px > P)
        if px > P:
            # doc/services.rst: "MapProxy returns an WMS exception in XML format for requests that are larger" - whatever
            # EXCEPTIONS asks for, an over-limit request is never answered with an image (not even a blank one)
            expect = 'refuse'
        elif tiled:
            # WMS-C request: must align with the tile grid of a cached layer, otherwise an error (not modelled here)
            expect = 'global-only'
        else:
            expect = 'serve'
        near = abs(px - P) <= 0.05 * P
        kind = 'none' if not extras else ('tiled' if tiled else ('image-exceptions' if in_image else 'other'))
        uncached = p['layer'] in ('d', 'm', 'ad')
        self._judge(p, req, expect, ['svc:wms', 'layer:' + p['layer'], 'expect:' + expect, 'probe:pixels-' + rel,
                                     'pixels-extras:%s/%s' % (kind, 'uncached-layer' if uncached else 'cached-layer')]
                    + (['pixels-image-exceptions:%s/%s' % ('1.3.0' if v130 and px > P else '1.1.1', 'over' if px > P else 'within')]
                       if in_image else []),
                    nontrivial=near or rel.startswith('astro'), svc='wms',
                    what='pixels-over-limit' + ('+image-exceptions' if in_image else ('+tiled' if tiled else ('+extras' if extras else ''))),
                    blank_ok=False)

    def _wms_tiles(self, p):
        gname = p.get('grid', 'g1')
        multi = self.opts.get('multi') or ''
        if (p['layer'] == 'x' and not multi) or (p['layer'] == 'y' and not multi.startswith('cascade')) or gname not in self.refs:
            return      # (hand-edited case)
        saved = (self.ref, self.n_levels, self.cur_srs)
        self.ref, self.cur_srs = self.refs[gname]
        self.n_levels = len(self.ref.res)
        try:
            self._wms_tiles_on_grid(p, gname)
        finally:
            self.ref, self.n_levels, self.cur_srs = saved

    def _wms_tiles_on_grid(self, p, gname):
        N = int(self.opts['max_tile_limit'])
        wm, hm = max_pixels(self.opts, self.facts)
        P = wm * hm
        tw, th = self.ref.tw, self.ref.th
        rel = p['rel']
        targets = {'below': [N - 1, N - 2], 'at': [N], 'above': [N + 1, N + 2], 'above2': [N + 2, N + 3], 'far': [4 * N, 4 * N + 1, 3 * N]}[rel]
        order = {'last': list(range(self.n_levels - 1, -1, -1)), 'first': list(range(self.n_levels)),
                 'mid': sorted(range(self.n_levels), key=lambda i: abs(i - self.n_levels // 2))}[p['lvl']]
        found = None
        for T in targets:
            if T < 1:
                continue
            pairs = [(a, T // a) for a in range(1, T + 1) if T % a == 0]
            pairs.sort(key=lambda ab: (abs(ab[0] - ab[1]), ab[0] < ab[1] if p.get('wide') else ab[0] > ab[1]))
            for z in order:
                for nx, ny in pairs:
                    rect = self._placed_rect(p, nx, ny, z)
                    if rect is not None:
                        found = (T, nx, ny, z, rect)
                        break
                if found:
                    break
            if found:
                break
        if not found:
            self.stats.notes['wms-tiles:grid-too-small-for-' + rel] += 1
            return
        T, nx, ny, z, rect = found
        # both sides get exactly the level resolution (the rectangle is shrunk by less than a pixel, the margins are
        # >= 0.1 tile >= 3 px), then the longer side is coarsened so that the pixel limit is not the reason of a refusal:
        # MapProxy chooses the level from the finer of the two resolutions
        res = self.ref.res[z]
        w0 = int((rect[2] - rect[0]) / res)
        h0 = int((rect[3] - rect[1]) / res)
        if w0 < 3 or h0 < 3:
            self.stats.notes['wms-tiles:rectangle-too-small'] += 1
            return
        rect = (rect[0], rect[1], rect[0] + w0 * res, rect[1] + h0 * res)
        budget = int(0.8 * P)
        if w0 * h0 > budget:
            if w0 >= h0:
                w0 = max(1, min(w0, budget // h0))
            else:
                h0 = max(1, min(h0, budget // w0))
        if w0 * h0 > P:
            self.stats.notes['wms-tiles:pixel-budget-too-small'] += 1
            return
        req = self._getmap(self._layers(p), rect, (w0, h0))
        expect = 'serve' if T < N else ('refuse' if T > N else 'refuse-or-any')
        if expect == 'serve' and p['layer'] == 'y' and self.opts.get('multi') == 'cascade-multi':
            # the lower two-grid cache applies its own tile limit to the (meta) tile requests of the upper cache
            expect = 'global-only'
        near = abs(T - N) <= max(1, 0.05 * N)
        self._judge(p, req, expect, ['svc:wms', 'layer:' + p['layer'], 'expect:' + expect, 'probe:tiles-' + rel,
                                     'tiles-on:%s/%s' % ({'x': 'two-grid-cache', 'y': 'cache-of-' + (self.opts.get('multi') or '')[8:] + '-cache'}
                                                         .get(p['layer'], 'single-grid-cache'), gname),
                                     'tiles-T-minus-limit:%+d' % max(-3, min(3, T - N))],
                    nontrivial=near, svc='wms',
                    what='tiles-over-limit' + {'x': '@two-grid-cache', 'y': '@cache-of-cache'}.get(p['layer'], ''))

    def _wms_edge(self, p):
        """bbox across / beyond the grid edge: any answer, but nothing outside the grid may be fetched or stored"""
        z = {'last': self.n_levels - 1, 'first': 0, 'mid': self.n_levels // 2}[p['lvl']]
        sx, sy = self.ref.span(z)
        b = self.ref.bbox
        cx, cy = (b[0] + b[2]) / 2, (b[1] + b[3]) / 2
        w = min(sx * Fr(3, 2), (b[2] - b[0]))
        h = min(sy * Fr(3, 2), (b[3] - b[1]))
        where = p['where']
        centre = {'east': (b[2], cy), 'west': (b[0], cy), 'north': (cx, b[3]), 'south': (cx, b[1]), 'corner': (b[2], b[3]),
                  'beyond': (b[2] + 2 * sx, b[3] + 2 * sy), 'far': (b[2] + 10 ** 6 * sx, cy)}[where]
        rect = (centre[0] - w / 2, centre[1] - h / 2, centre[0] + w / 2, centre[1] + h / 2)
        size = (max(1, int(w / self.ref.res[z])), max(1, int(h / self.ref.res[z])))
        wm, hm = max_pixels(self.opts, self.facts)
        if size[0] * size[1] > wm * hm:
            f = math.sqrt(wm * hm / float(size[0] * size[1])) * 0.95
            size = (max(1, int(size[0] * f)), max(1, int(size[1] * f)))
        req = self._getmap(self._layers(p), rect, size)
        self._judge(p, req, 'global-only', ['svc:wms', 'layer:' + p['layer'], 'expect:global-only', 'probe:edge-' + where],
                    nontrivial=where not in ('far',), svc='wms', what='edge')


# ------------------------------------------------------------------------------------------------

def run_case(case, stats, exclude_known=True):
    import logging
    import numpy as np
    logging.disable(logging.CRITICAL)
    try:
        import warnings
        # the synthetic upstream renders outside the area of validity of an SRS now and then (NaN coordinates)
        with np.errstate(all='ignore'), warnings.catch_warnings():
            warnings.simplefilter('ignore', RuntimeWarning)
            return ConfigRun(case, stats, exclude_known=exclude_known).run()
    finally:
        logging.disable(logging.NOTSET)


N_CONFIGS = {'quick': 240, 'thorough': 20000}


def _minimal_case_hash():
    """hash of the all-simplest-choices example, which Hypothesis generates first in every shard whatever the seed"""
    import hypothesis
    from hypothesis import HealthCheck, Phase, given, settings
    got = []

    @hypothesis.seed(0)
    @settings(max_examples=1, database=None, deadline=None, suppress_health_check=list(HealthCheck), phases=[Phase.generate])
    @given(cases())
    def first(case):
        got.append(case)
    try:
        first()
    except Exception:   # noqa - only an optimisation: without it that example is evaluated once per shard
        return None
    return core.case_hash(got[0]) if got else None


def search_shard(shard, nshards, seed, tier):
    st_ = core.Stats()
    n = N_CONFIGS[tier] // nshards
    found = {}
    minimal = _minimal_case_hash()

    def check(case, s):
        if shard != 0 and core.case_hash(case) == minimal:
            # Hypothesis starts every run with the same minimal example: evaluate it in shard 0 only
            s.excluded['minimal-example-repeated-in-other-shard'] += 1
            return None
        vs = run_case(case, s)
        for v in vs:
            found.setdefault(v.signature, v)
        done = set(v.signature for v in s.violations)
        for v in vs:
            if v.signature not in done:
                return v        # the same answer when Hypothesis replays the example
        return None
    core.hyp_search(cases(), check, st_, max_examples=max(n, 1), seed=seed, max_signatures=4, shrink=False)
    done = set(v.signature for v in st_.violations)
    for sig_, v in sorted(found.items()):
        if sig_ not in done:
            st_.violations.append(v)   # further root causes seen on the way (the search is restarted at most 4 times)
    return st_


def run(tier, seed, stats):
    stats.merge(core.parallel(search_shard, 16, seed, tier))
    if os.environ.get('VERIF_REPO'):
        stats.notes['VERIF_REPO'] += 1


def _normalise(case):
    case = dict(case)
    g = dict(case['grid'])
    for k in ('tile_size', 'bbox'):
        if g.get(k) is not None:
            g[k] = tuple(g[k])
    case['grid'] = g
    o = dict(case['opts'])
    o['meta'] = tuple(o['meta'])
    o['max_px'] = tuple(o['max_px'])
    case['opts'] = o
    return case


def replay(case, stats):
    # the committed demonstration of a known finding must not be excluded by the known-finding filter
    vs = run_case(_normalise(case), stats, exclude_known=False)
    out, seen = [], set()
    for v in vs:
        if v.signature not in seen:
            seen.add(v.signature)
            out.append(v)
    return out
