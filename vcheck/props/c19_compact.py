"""C19 - Compact bundles stay structurally valid, and defragmentation loses nothing.

A Hypothesis state machine drives CompactCacheV1 / CompactCacheV2 through generated histories of
store / overwrite / remove (single and bulk), remove-level, reopen, read probes and
`mapproxy.script.defrag.defrag_compact_cache` (called the way the command line does), with a plain
dict as the model.  After every step every bundle found on disk is parsed by an INDEPENDENT reader of
the Esri compact cache formats (written from the format description, see `parse_v1` / `parse_v2`; it
never calls MapProxy) and compared with the model.  See DESIGN.md section 20.
"""
import hashlib
import os
import re
import shutil
import struct
import tempfile
from io import BytesIO

import numpy as np
from hypothesis import strategies as st
from hypothesis.stateful import RuleBasedStateMachine, initialize, precondition, rule

from .. import core

PROPERTY = 'C19'
LEVEL = 'exploration'
RULE = ('Hypothesis RuleBasedStateMachine histories over CompactCacheV1 and CompactCacheV2: single stores, bulk '
        'stores of meta-tile blocks (inside one bundle and straddling the 127/128 bundle border), overwrites of '
        'present tiles, removes of present / absent tiles (single and bulk), remove of a whole level, reopen, '
        'single and bulk read probes and defragmentation with generated --min-percent / --min-mb / --dry-run '
        'values incl. 0; every history has 1-4 anchor bundles (row / column neighbours and other levels) and a pool of '
        '2-4 relative slots shared by them (mirrored stores / removes put tiles at the same index position, and at '
        'the v1 index successor row+1, of several bundles that one defrag run rewrites); payloads of 1 byte .. 40 KB (thorough: 300 KB) incl. sizes around 2^8, 2^12 and 2^16; '
        'several bundles and levels per history incl. bundle rows / columns >= 65536 (5 hex digit file names). '
        'After every step all bundle files are parsed by an independent format reader and compared with a dict '
        'model; around defrag the cache API answers and all file sizes are compared. A history is non-trivial '
        'when it has >= 1 overwrite and >= 1 remove of a present tile before a defragmentation that actually '
        'rewrote or deleted a bundle; distinct = distinct (format version, step list).')
ASSUMPTIONS = [
    'reference: independent parser of the Esri compact cache v1 (.bundlx 16-byte header + 5-byte LE offsets, '
    'column-major; .bundle 60-byte header, records = 4-byte LE size + data) and v2 (64-byte header, 8-byte '
    'entries size<<40|offset, row-major, 4-byte size in front of the data) layouts; bundle file '
    'L<zz>/R<row:04x>C<col:04x> of the 128x128 block containing the tile',
    'an empty entry is offset 0 or a zero-size record (v1) / size 0 (v2); zero-length tiles are never stored',
    'tile coordinates lie inside a global quad-tree level (x, y < 2^z), bulk stores have distinct coordinates, '
    'single writer, healthy file system, no crash during an operation',
    'defragmentation is called like the CLI does: min_percent = percent/100, min_bytes = mb*1024*1024, DefragLog',
    'threshold honouring, the v1 tile counter and the max-record-size header fields are not judged '
    '(outside the property wording); a v1 header row/column range that contradicts the file name is only counted',
]

SIG_ORPHAN_INDEX = 'C19/v1/remove/index-without-data-file'

GRID = 128
NTILES = GRID * GRID

V1_INDEX_HEADER = 16
V1_INDEX_FOOTER = 16
V1_INDEX_SIZE = V1_INDEX_HEADER + 5 * NTILES + V1_INDEX_FOOTER
V1_HEADER = 60
V2_HEADER = 64
V2_INDEX = 8 * NTILES


def _mp():
    from mapproxy.cache import compact
    from mapproxy.cache.tile import Tile
    from mapproxy.image import ImageSource
    from mapproxy.script import defrag
    return compact, Tile, ImageSource, defrag


# ------------------------------------------------------------------------------------------------
# independent reader of the two bundle formats


class OpRaised(Exception):
    """the code under test raised inside an operation of the history"""


class Problem(Exception):
    def __init__(self, name, message):
        Exception.__init__(self, message)
        self.name = name
        self.message = message


def bundle_relbase(coord):
    """relative path (without extension) of the bundle that holds tile `coord`"""
    x, y, z = coord
    return 'L%02d/R%04xC%04x' % (z, (y // GRID) * GRID, (x // GRID) * GRID)


def read_file(path):
    with open(path, 'rb') as f:
        return f.read()


def _u32_at(buf, offsets):
    """little-endian u32 at each of `offsets` (numpy int64 array) of the uint8 array `buf`"""
    o = offsets.astype(np.int64)
    return (buf[o].astype(np.uint64) | (buf[o + 1].astype(np.uint64) << np.uint64(8)) |
            (buf[o + 2].astype(np.uint64) << np.uint64(16)) | (buf[o + 3].astype(np.uint64) << np.uint64(24)))


def parse_v1(idx, dat, notes=None, origin=None):
    """idx/dat: bytes of the .bundlx / .bundle file (None when missing) -> {(col, row) in bundle: tile bytes}"""
    if idx is None and dat is None:
        return {}
    if dat is None:
        raise Problem('index-without-data-file', 'the .bundlx index exists but there is no .bundle file: every '
                      'non-zero index entry points at a record in a missing file')
    if idx is None:
        raise Problem('data-file-without-index', 'the .bundle file exists but its .bundlx index is missing')
    if len(idx) != V1_INDEX_SIZE:
        raise Problem('index-size', '.bundlx has %d bytes, expected %d' % (len(idx), V1_INDEX_SIZE))
    if len(dat) < V1_HEADER:
        raise Problem('header-truncated', '.bundle has only %d bytes' % len(dat))
    hdr = struct.unpack('<4I3Q5I', dat[:V1_HEADER])
    if hdr[5] != len(dat):
        raise Problem('header-file-size', 'v1 header records file size %d, actual size %d' % (hdr[5], len(dat)))
    if notes is not None and origin is not None:
        row0, col0 = origin
        if (hdr[8], hdr[9], hdr[10], hdr[11]) != (row0, row0 + 127, col0, col0 + 127):
            notes['v1-header-range-differs-from-file-name'] += 1
    e = np.frombuffer(idx, np.uint8, 5 * NTILES, V1_INDEX_HEADER).reshape(NTILES, 5).astype(np.uint64)
    off = e[:, 0] | (e[:, 1] << np.uint64(8)) | (e[:, 2] << np.uint64(16)) | (e[:, 3] << np.uint64(24)) | \
        (e[:, 4] << np.uint64(32))
    pos = np.nonzero(off)[0]
    o = off[pos].astype(np.int64)
    n = len(dat)
    bad = np.nonzero(o < V1_HEADER)[0]
    if len(bad):
        k = int(pos[bad[0]])
        raise Problem('offset-inside-header', 'index entry (col %d, row %d) = offset %d lies inside the header'
                      % (k // GRID, k % GRID, int(o[bad[0]])))
    bad = np.nonzero(o + 4 > n)[0]
    if len(bad):
        k = int(pos[bad[0]])
        raise Problem('offset-outside-file', 'index entry (col %d, row %d) = offset %d, but the file has %d bytes'
                      % (k // GRID, k % GRID, int(o[bad[0]]), n))
    buf = np.frombuffer(dat, np.uint8)
    size = _u32_at(buf, o).astype(np.int64)
    bad = np.nonzero(o + 4 + size > n)[0]
    if len(bad):
        k = int(pos[bad[0]])
        raise Problem('record-truncated', 'record of (col %d, row %d) at offset %d announces %d bytes, but the '
                      'file ends at %d' % (k // GRID, k % GRID, int(o[bad[0]]), int(size[bad[0]]), n))
    tiles = {}
    for j in np.nonzero(size)[0]:
        k = int(pos[j])
        a = int(o[j]) + 4
        tiles[(k // GRID, k % GRID)] = dat[a:a + int(size[j])]   # column-major: k = col * 128 + row
    return tiles


def parse_v2(dat):
    if dat is None:
        return {}
    n = len(dat)
    if n < V2_HEADER + V2_INDEX:
        raise Problem('index-truncated', 'v2 bundle has %d bytes, header + index need %d' % (n, V2_HEADER + V2_INDEX))
    hdr = struct.unpack('<4I3Q6I', dat[:V2_HEADER])
    if hdr[5] != n:
        raise Problem('header-file-size', 'v2 header records file size %d, actual size %d' % (hdr[5], n))
    v = np.frombuffer(dat, '<u8', NTILES, V2_HEADER)
    size = (v >> np.uint64(40)).astype(np.int64)
    off = (v & np.uint64((1 << 40) - 1)).astype(np.int64)
    tiles = {}
    for k in np.nonzero(size)[0]:
        k = int(k)
        o, s = int(off[k]), int(size[k])
        col, row = k % GRID, k // GRID                            # row-major: k = row * 128 + col
        if o - 4 < V2_HEADER + V2_INDEX:
            raise Problem('record-inside-index', 'index entry (col %d, row %d): offset %d size %d lies inside the '
                          'header/index area' % (col, row, o, s))
        if o + s > n:
            raise Problem('record-outside-file', 'index entry (col %d, row %d): offset %d + size %d exceeds the '
                          'file size %d' % (col, row, o, s, n))
        rec = struct.unpack_from('<I', dat, o - 4)[0]
        if rec != s:
            raise Problem('record-size-mismatch', 'index entry (col %d, row %d) says %d bytes, the record header '
                          'at %d says %d' % (col, row, s, o - 4, rec))
        tiles[(col, row)] = dat[o:o + s]
    return tiles


BUNDLE_RE = re.compile(r'^L(\d\d)/R([0-9a-f]{4,})C([0-9a-f]{4,})\.(bundle|bundlx)$')


def scan(root):
    """{relative path: absolute path} of every file below root"""
    out = {}
    for d, _, files in os.walk(root):
        for f in files:
            p = os.path.join(d, f)
            out[os.path.relpath(p, root).replace(os.sep, '/')] = p
    return out


# ------------------------------------------------------------------------------------------------
# harness: executes concrete steps against a real cache directory and judges them


def payload(size, tag):
    return hashlib.shake_256(b'%d:%d' % (size, tag)).digest(size)


class Harness(object):
    def __init__(self, version, stats):
        self.version = int(version)
        self.stats = stats
        self.steps = []
        self.model = {}            # (x, y, z) -> bytes
        self.touched = set()
        self.dead = False
        self._validated = {}       # relbase -> (digest of file bytes, digest of model part)
        self.flags = set()
        self.n_overwrite = self.n_remove_present = self.n_defrag_rewrote = 0
        self.nontrivial = False
        self.root = tempfile.mkdtemp(prefix='vc19-')
        self.cache_dir = os.path.join(self.root, 'cache')
        os.mkdir(self.cache_dir)
        self.cache = self._open()

    def _open(self):
        compact = _mp()[0]
        cls = compact.CompactCacheV1 if self.version == 1 else compact.CompactCacheV2
        return cls(self.cache_dir)

    def close(self):
        shutil.rmtree(self.root, ignore_errors=True)

    def case(self):
        return {'version': self.version, 'steps': list(self.steps)}

    def sig(self, phase, name):
        return 'C19/v%d/%s/%s' % (self.version, phase, name)

    def violation(self, phase, name, message):
        return core.Violation(self.sig(phase, name), 'v%d, after step %d (%s): %s'
                              % (self.version, len(self.steps), phase, message), self.case())

    # -- cache API helpers --------------------------------------------------------------------

    def call(self, fn, *args, **kw):
        try:
            return fn(*args, **kw)
        except Exception as ex:
            raise OpRaised(repr(ex)) from ex

    def api_load(self, coord):
        Tile = _mp()[1]
        t = Tile(tuple(coord))
        ok = self.call(self.cache.load_tile, t)
        if not ok or t.source is None:
            return None
        buf = t.source.as_buffer()
        buf.seek(0)
        return buf.read()

    def bundle_exists(self, coord):
        base = os.path.join(self.cache_dir, bundle_relbase(coord))
        return os.path.exists(base + ('.bundlx' if self.version == 1 else '.bundle'))

    # -- validation -----------------------------------------------------------------------------

    def validate(self, phase, with_model=True):
        files = scan(self.cache_dir)
        bases = {}
        for rel in files:
            m = BUNDLE_RE.match(rel)
            if m:
                bases.setdefault(rel.rsplit('.', 1)[0], set()).add(m.group(4))
            elif phase == 'defrag' and os.path.basename(rel).startswith('tmp_defrag'):
                return self.violation(phase, 'tmp-residue', 'file %s left behind by defragmentation' % rel)
            else:
                self.stats.notes['other-file:' + re.sub(r'[0-9]+', 'N', os.path.basename(rel))[-24:]] += 1
        expected = {}
        for coord, data in self.model.items():
            expected.setdefault(bundle_relbase(coord), {})[(coord[0] % GRID, coord[1] % GRID)] = data
        for base in sorted(set(bases) | set(expected)):
            exts = bases.get(base, ())
            dat = read_file(files[base + '.bundle']) if 'bundle' in exts else None
            idx = read_file(files[base + '.bundlx']) if 'bundlx' in exts else None
            exp = expected.get(base, {}) if with_model else None
            h = hashlib.blake2b(digest_size=16)
            for part in (dat, idx):
                h.update(b'-' if part is None else b'+%d:' % len(part))
                h.update(part or b'')
            hm = hashlib.blake2b(repr(sorted((k, hashlib.sha1(v).digest()) for k, v in exp.items())).encode()
                                 if exp is not None else b'nomodel', digest_size=16)
            key = (h.digest(), hm.digest())
            if self._validated.get(base) == key:
                continue
            if dat is not None and len(dat) > (1 << 18):
                self.flags.add('file>2^18')
            if dat is not None and len(dat) > (1 << 20):
                self.flags.add('file>2^20')
            if dat is not None and len(dat) > (1 << 24):
                self.flags.add('file>2^24')
            m = BUNDLE_RE.match(base + '.bundle')
            try:
                if self.version == 1:
                    tiles = parse_v1(idx, dat, self.stats.notes, (int(m.group(2), 16), int(m.group(3), 16)))
                else:
                    if idx is not None:
                        self.stats.notes['v2-cache-with-bundlx-file'] += 1
                    tiles = parse_v2(dat)
            except Problem as p:
                return self.violation(phase, p.name, 'bundle %s: %s' % (base, p.message))
            if exp is not None:
                for rel in sorted(set(tiles) | set(exp)):
                    got, want = tiles.get(rel), exp.get(rel)
                    if got == want:
                        continue
                    where = 'bundle %s entry (col %d, row %d)' % (base, rel[0], rel[1])
                    if got is None:
                        return self.violation(phase, 'tile-missing', '%s is empty, the history stored %d bytes there'
                                              % (where, len(want)))
                    if want is None:
                        return self.violation(phase, 'phantom-tile', '%s holds %d bytes although the history left '
                                              'this address empty' % (where, len(got)))
                    return self.violation(phase, 'tile-wrong-bytes', '%s holds %d bytes that differ from the %d '
                                          'bytes stored last' % (where, len(got), len(want)))
            self._validated[base] = key
        return None

    # -- steps ----------------------------------------------------------------------------------

    def apply(self, step):
        """execute one concrete step; returns a Violation or None"""
        self.steps.append(step)
        op = step['op']
        phase = {'store': 'store', 'remove': 'remove'}.get(op, op)
        try:
            v = getattr(self, '_op_' + op)(step)
        except OpRaised as ex:    # raised by the code under test: judge the state it left, then stop
            self.stats.notes['%s-raised:%s' % (op, type(ex.__cause__).__name__)] += 1
            self.dead = True
            return self.validate(phase + '-raised', with_model=False)
        if v is not None:
            return v
        return self.validate(phase)

    def _op_store(self, step):
        _, Tile, ImageSource, _ = _mp()
        tiles = []
        seen = set()
        for x, y, z, size, tag in step['tiles']:
            coord = (x, y, z)
            if coord in seen or size < 1 or max(x, y) >= 2 ** z:
                raise core.HarnessError('malformed store step %r' % (step,))
            seen.add(coord)
            data = payload(size, tag)
            tiles.append((coord, data))
        mp_tiles = [Tile(c, ImageSource(BytesIO(d))) for c, d in tiles]
        st_ = self.stats
        bundles = set(bundle_relbase(c) for c, _ in tiles)
        if step.get('bulk'):
            st_.classes['op:store-bulk-%s' % ('one-bundle' if len(bundles) == 1 else 'across-bundles')] += 1
            ok = self.call(self.cache.store_tiles, mp_tiles)
        else:
            st_.classes['op:store-single'] += 1
            ok = all([self.call(self.cache.store_tile, t) for t in mp_tiles])
        if not ok:
            st_.notes['store-returned-false'] += 1
        for c, d in tiles:
            if c in self.model:
                self.n_overwrite += 1
                st_.classes['op:overwrite'] += 1
            self.model[c] = d
            self.touched.add(c)
            self._classify_addr(c)
            n = len(d)
            st_.classes['payload:' + ('1B' if n == 1 else '<=64B' if n <= 64 else '<=4KB' if n <= 4096 else
                                      '<64KB' if n < 65536 else '>=64KB')] += 1
        return None

    def _classify_addr(self, c):
        if c[0] % GRID in (0, 127) or c[1] % GRID in (0, 127):
            self.stats.classes['addr:on-bundle-border-0/127'] += 1
        if max(c[0], c[1]) >= 65536:
            self.stats.classes['addr:5-hex-digit-bundle-name'] += 1

    def _op_remove(self, step):
        Tile = _mp()[1]
        coords = [tuple(c) for c in step['coords']]
        for c in coords:
            if c in self.model:
                self.n_remove_present += 1
                self.stats.classes['op:remove-present'] += 1
            elif self.bundle_exists(c):
                self.stats.classes['op:remove-absent-in-existing-bundle'] += 1
            else:
                self.stats.classes['op:remove-in-missing-bundle'] += 1
            self._classify_addr(c)
        if step.get('bulk'):
            self.stats.classes['op:remove-bulk'] += 1
            self.call(self.cache.remove_tiles, [Tile(c) for c in coords])
        else:
            for c in coords:
                self.call(self.cache.remove_tile, Tile(c))
        for c in coords:
            self.model.pop(c, None)
            self.touched.add(c)
        return None

    def _op_remove_level(self, step):
        self.stats.classes['op:remove_level'] += 1
        z = step['level']
        self.call(self.cache.remove_level_tiles_before, z, remove_all=True)
        for c in [c for c in self.model if c[2] == z]:
            del self.model[c]
            self.n_remove_present += 1
        return None

    def _op_reopen(self, step):
        self.stats.classes['op:reopen'] += 1
        self.cache = self._open()
        return None

    def _op_probe(self, step):
        """reads through the cache API (single, bulk, is_cached); read paths may touch files too (v1)"""
        Tile = _mp()[1]
        self.stats.classes['op:probe'] += 1
        coords = [tuple(c) for c in step['coords']]
        if step.get('bulk'):
            tiles = [Tile(c) for c in coords]
            ok = self.call(self.cache.load_tiles, tiles)
            got = []
            for t in tiles:
                if t.source is None:
                    got.append(None)
                else:
                    b = t.source.as_buffer()
                    b.seek(0)
                    got.append(b.read())
            if bool(ok) != all(g is not None for g in got):
                return self.violation('probe', 'load_tiles-result', 'load_tiles returned %r but %d of %d tiles '
                                      'have data' % (ok, sum(g is not None for g in got), len(got)))
        else:
            got = [self.api_load(c) for c in coords]
        for c, g in zip(coords, got):
            want = self.model.get(c)
            if g != want:
                return self.violation('probe', 'api-read-differs', 'load of %r returns %s, history says %s' % (
                    c, 'nothing' if g is None else '%d bytes' % len(g),
                    'nothing' if want is None else '%d bytes' % len(want)))
            cached = bool(self.call(self.cache.is_cached, Tile(c)))
            if cached != (want is not None):
                return self.violation('probe', 'is_cached-differs', 'is_cached(%r) = %r, history says %r'
                                      % (c, cached, want is not None))
        return None

    def _op_defrag(self, step):
        defrag = _mp()[3]
        st_ = self.stats
        st_.classes['op:defrag'] += 1
        probe = sorted(self.touched)
        before_api = [self.api_load(c) for c in probe]
        files = scan(self.cache_dir)
        before = {}
        for rel, p in files.items():
            s = os.stat(p)
            before[rel] = (s.st_size, s.st_ino, read_file(p) if step.get('dry_run') else None)
        percent, mb = step['min_percent'], step['min_mb']
        if percent == 0 and mb == 0:
            st_.classes['defrag:thresholds-zero'] += 1
        if step.get('dry_run'):
            st_.classes['defrag:dry-run'] += 1
        # exactly the call of mapproxy.script.defrag.defrag_command
        self.call(defrag.defrag_compact_cache, self.cache, min_percent=percent / 100, min_bytes=mb * 1024 * 1024,
                  dry_run=bool(step.get('dry_run')), log_progress=defrag.DefragLog('c19'))
        after = scan(self.cache_dir)
        rewrote = deleted = 0
        rewritten = []
        for rel, p in sorted(after.items()):
            size = os.path.getsize(p)
            if rel not in before:
                if os.path.basename(rel).startswith('tmp_defrag'):
                    return self.violation('defrag', 'tmp-residue', 'file %s left behind' % rel)
                if BUNDLE_RE.match(rel):
                    return self.violation('defrag', 'new-file', 'defragmentation created %s (%d bytes)' % (rel, size))
                continue
            if size > before[rel][0]:
                return self.violation('defrag', 'file-grew', '%s grew from %d to %d bytes' % (rel, before[rel][0], size))
            if os.stat(p).st_ino != before[rel][1] and rel.endswith('.bundle'):
                rewrote += 1
                rewritten.append(rel[:-len('.bundle')])
                if size < before[rel][0]:
                    st_.classes['defrag:bundle-shrank'] += 1
        for rel in before:
            if rel not in after and rel.endswith('.bundle') and BUNDLE_RE.match(rel):
                deleted += 1
        if step.get('dry_run'):
            for rel, (size, ino, data) in sorted(before.items()):
                if rel not in after or read_file(after[rel]) != data:
                    return self.violation('defrag', 'dry-run-modified', 'dry run changed %s' % rel)
        if rewrote >= 2:
            # several bundles rewritten by ONE run; do they hold tiles at the same index position?
            st_.classes['defrag:>=2-bundles-rewritten-in-one-run'] += 1
            slots = {}
            for c in self.model:
                base = bundle_relbase(c)
                if base in rewritten:
                    slots.setdefault((c[0] % GRID, c[1] % GRID), set()).add(base)
            shared = [b for b in slots.values() if len(b) >= 2]
            if shared:
                st_.classes['defrag:same-slot-in->=2-rewritten-bundles'] += 1
                if any(len(set(b.split('/')[0] for b in bs)) >= 2 for bs in shared):
                    st_.classes['defrag:same-slot-across-levels'] += 1
                if any(len(bs) > len(set(b.split('/')[0] for b in bs)) for bs in shared):
                    st_.classes['defrag:same-slot-across-rows/columns'] += 1
                self.flags.add('defrag-shared-slot')
        st_.classes['defrag:rewrote-bundles'] += rewrote
        st_.classes['defrag:deleted-empty-bundles'] += deleted
        if not rewrote and not deleted:
            st_.classes['defrag:nothing-rewritten'] += 1
        else:
            self.n_defrag_rewrote += 1
            if self.n_overwrite and self.n_remove_present:
                self.nontrivial = True
        v = self.validate('defrag')
        if v is not None:
            return v
        for c, b in zip(probe, before_api):
            a = self.api_load(c)
            if a != b:
                kind = 'tile-lost' if a is None else 'tile-appeared' if b is None else 'tile-changed'
                return self.violation('defrag', kind, 'address %r returned %s before and %s after defragmentation' % (
                    c, 'nothing' if b is None else '%d bytes' % len(b), 'nothing' if a is None else '%d bytes' % len(a)))
        return None

    def finish(self):
        """record the evaluated history in the statistics"""
        classes = ['v%d' % self.version]
        bundles = set(bundle_relbase(c) for c in self.touched)
        if len(bundles) > 1:
            classes.append('hist:several-bundles')
        if len(set(c[2] for c in self.touched)) > 1:
            classes.append('hist:several-levels')
        if self.n_overwrite and self.n_remove_present:
            classes.append('hist:overwrite+remove')
        if self.n_defrag_rewrote:
            classes.append('hist:defrag-rewrote')
        if self.nontrivial:
            classes.append('hist:nontrivial')
        classes.extend('hist:' + f for f in sorted(self.flags))
        self.stats.case(key=self.case(), nontrivial=self.nontrivial, classes=classes,
                        sample={'version': self.version, 'n_steps': len(self.steps), 'steps': self.steps[:12]})


# ------------------------------------------------------------------------------------------------
# generators

LEVELS = [0, 1, 2, 7, 8, 9, 12, 17, 18]
BORDER = [0, 1, 2, 63, 64, 125, 126, 127, 128, 129, 130, 254, 255, 256, 257, 383, 384]
WIDE = [65407, 65408, 65534, 65535, 65536, 65537, 65663, 65664]
INNER = [0, 0, 1, 2, 63, 64, 125, 126, 127, 127]

# A history concentrates on a few "anchor" bundles (defragmentation cost grows with the number of bundles);
# an anchor is (bundle column, bundle row, level).  Bundle indices 511 / 512 are the last bundle with a
# 4 hex digit file name and the first one with 5 digits.
ANCHOR_INDEX = {0: [0], 1: [0], 2: [0], 7: [0], 8: [0, 1], 9: [0, 1, 2, 3], 12: [0, 1, 2, 30, 31],
                17: [0, 510, 511, 512, 513, 1023], 18: [511, 512, 2047]}


@st.composite
def anchors(draw):
    """context of one history: a few anchor bundles (neighbours in the same level and bundles of other levels)
    and a small pool of relative slots (col, row) that is shared by all of them, so that several bundles hold
    tiles at the same position of their index"""
    inner = st.one_of(st.sampled_from(INNER), st.integers(0, 127))
    z = draw(st.sampled_from(LEVELS + [8, 9, 12, 12]))
    idx = ANCHOR_INDEX[z]
    first = (draw(st.sampled_from(idx)), draw(st.sampled_from(idx)), z)
    out = [first]
    for _ in range(draw(st.sampled_from([0, 1, 1, 2, 2, 3]))):
        kind = draw(st.integers(0, 3))
        bx, by, z0 = first
        nb = 2 ** z0 // GRID
        if kind == 0 and bx + 1 < nb:
            cand = (bx + 1, by, z0)                # east neighbour: blocks straddle the border
        elif kind == 1 and by + 1 < nb:
            cand = (bx, by + 1, z0)
        else:
            z = draw(st.sampled_from(LEVELS))
            idx = ANCHOR_INDEX[z]
            cand = (draw(st.sampled_from(idx)), draw(st.sampled_from(idx)), z)
        if cand not in out:
            out.append(cand)
    slots = draw(st.lists(st.tuples(inner, inner), min_size=2, max_size=4))
    return {'bundles': out, 'slots': slots}


def axis():
    return st.one_of(st.sampled_from(BORDER), st.sampled_from(BORDER), st.integers(0, 400), st.sampled_from(WIDE))


@st.composite
def coords(draw):
    """address specification, resolved against the anchors of the running history by `resolve`"""
    kind = draw(st.integers(0, 11))
    if kind == 0:
        x, y = draw(axis()), draw(axis())
        z = draw(st.sampled_from([l for l in LEVELS if 2 ** l > max(x, y)]))
        return ('free', x, y, z)
    if kind <= 5:
        inner = st.one_of(st.sampled_from(INNER), st.integers(0, 127))
        return ('anchor', draw(st.integers(0, 5)), draw(inner), draw(inner))
    # a slot of the shared pool (or its successor in v1 index order, row + 1) in one of the anchor bundles
    return ('slot', draw(st.integers(0, 5)), draw(st.integers(0, 3)), draw(st.sampled_from([0, 0, 0, 1])))


def resolve(spec, ctx):
    if spec[0] == 'free':
        return tuple(spec[1:])
    bundles = ctx['bundles']
    bx, by, z = bundles[spec[1] % len(bundles)]
    lim = 2 ** z - 1
    if spec[0] == 'slot':
        ox, oy = ctx['slots'][spec[2] % len(ctx['slots'])]
        oy = min(oy + spec[3], GRID - 1)
    else:
        ox, oy = spec[2], spec[3]
    return (min(bx * GRID + ox, lim), min(by * GRID + oy, lim), z)


def mirrored(slot_pick, dy, skip, ctx):
    """the same relative slot in every anchor bundle (optionally all but one)"""
    out = []
    for i in range(len(ctx['bundles'])):
        if len(ctx['bundles']) > 2 and i == skip:
            continue
        c = resolve(('slot', i, slot_pick, dy), ctx)
        if c not in out:
            out.append(c)
    return out


def sizes(tier):
    opts = [st.sampled_from([1, 2, 3, 4, 5, 16, 255, 256, 257, 4095, 4096, 4097]),
            st.integers(1, 64), st.integers(65, 4096), st.integers(4097, 40000),
            st.sampled_from([65531, 65532, 65535, 65536, 65537, 70000])]
    if tier == 'thorough':
        opts.append(st.integers(40001, 300000))
    return st.one_of(*opts)


TAGS = st.one_of(st.integers(0, 2), st.integers(0, 2 ** 32))


@st.composite
def blocks(draw):
    """a meta-tile like block of neighbouring tiles, often straddling a bundle border (resolved by `block`)"""
    return (draw(coords()), draw(st.integers(1, 4)), draw(st.integers(1, 4)),
            draw(st.lists(st.integers(0, 15), max_size=3)))


def block(spec, anchor_list):
    c, w, h, drop = spec
    x0, y0, z = resolve(c, anchor_list)
    if c[0] == 'anchor' and c[2] >= 125 or c[0] == 'slot' and x0 % GRID >= 125:
        x0 = max(0, x0 - (w // 2))      # let wide blocks start left of the border
    out = [(x, y, z) for y in range(y0, y0 + h) for x in range(x0, x0 + w) if max(x, y) < 2 ** z]
    kept = [c for i, c in enumerate(out) if i not in drop]
    return kept or out


PERCENTS = [0, 0, 0, 0.0, 0.001, 1, 5, 10.0, 50, 100]
MBS = [0, 0, 0, 0.0, 0.00001, 0.0001, 0.001, 0.01, 1.0]


def make_machine(tier):
    open_sigs = core.open_signatures(PROPERTY)

    class CompactMachine(RuleBasedStateMachine):
        _ignored_signatures = set()
        _stats = None

        def __init__(self):
            RuleBasedStateMachine.__init__(self)
            self.h = None

        @initialize(version=st.sampled_from([1, 2]), anchor_list=anchors())
        def start(self, version, anchor_list):
            self.h = Harness(version, self._stats)
            self.anchor_list = anchor_list

        def do(self, step):
            h = self.h
            if h is None or h.dead:
                return
            v = h.apply(step)
            if v is not None:
                h.dead = True
                if v.signature not in self._ignored_signatures:
                    raise core.MachineViolation(v)

        def pick_present(self, picks):
            keys = sorted(self.h.model)
            out = []
            for p in picks:
                c = keys[p % len(keys)]
                if c not in out:
                    out.append(c)
            return out

        def removable(self, cs):
            """exclude exactly the construct of the open finding: v1 remove in a bundle that has no files yet"""
            if SIG_ORPHAN_INDEX in open_sigs and self.h.version == 1:
                keep = [c for c in cs if self.h.bundle_exists(c)]
                self._stats.excluded['v1-remove-in-bundle-without-files'] += len(cs) - len(keep)
                return keep
            return cs

        @rule(c=coords(), size=sizes(tier), tag=TAGS)
        def store(self, c, size, tag):
            self.do({'op': 'store', 'tiles': [list(resolve(c, self.anchor_list)) + [size, tag]]})

        @rule(slot=st.integers(0, 3), dy=st.sampled_from([0, 0, 0, 1]), skip=st.integers(0, 5),
              sz=st.lists(sizes(tier), min_size=4, max_size=4), tag=TAGS, bulk=st.booleans())
        def store_mirrored(self, slot, dy, skip, sz, tag, bulk):
            """the same relative slot in all anchor bundles: stores first, overwrites (fragmentation) when repeated"""
            cs = mirrored(slot, dy, skip, self.anchor_list)
            self.do({'op': 'store', 'bulk': bulk and len(cs) > 1,
                     'tiles': [list(c) + [sz[i % 4], tag + i] for i, c in enumerate(cs)]})

        @precondition(lambda self: self.h is not None and self.h.model)
        @rule(slot=st.integers(0, 3), dy=st.sampled_from([0, 0, 1]), skip=st.integers(0, 5), bulk=st.booleans())
        def remove_mirrored(self, slot, dy, skip, bulk):
            cs = self.removable(mirrored(slot, dy, skip, self.anchor_list))
            if cs:
                self.do({'op': 'remove', 'bulk': bulk, 'coords': [list(c) for c in cs]})

        @rule(cs=blocks(), sz=st.lists(sizes(tier), min_size=16, max_size=16), tag=TAGS, bulk=st.booleans())
        def store_block(self, cs, sz, tag, bulk):
            cs = block(cs, self.anchor_list)
            self.do({'op': 'store', 'bulk': bulk,
                     'tiles': [list(c) + [sz[i], tag + i] for i, c in enumerate(cs)]})

        @precondition(lambda self: self.h is not None and self.h.model)
        @rule(picks=st.lists(st.integers(0, 10 ** 6), min_size=1, max_size=4), sz=st.lists(sizes(tier), min_size=4, max_size=4),
              tag=TAGS, bulk=st.booleans())
        def overwrite(self, picks, sz, tag, bulk):
            cs = self.pick_present(picks)
            self.do({'op': 'store', 'bulk': bulk and len(cs) > 1,
                     'tiles': [list(c) + [sz[i], tag + i] for i, c in enumerate(cs)]})

        @precondition(lambda self: self.h is not None and self.h.model)
        @rule(picks=st.lists(st.integers(0, 10 ** 6), min_size=1, max_size=4), bulk=st.booleans())
        def remove_present(self, picks, bulk):
            self.do({'op': 'remove', 'bulk': bulk, 'coords': [list(c) for c in self.pick_present(picks)]})

        def near(self, pick, dx, dy):
            """an address next to one that the history already used (same bundle or just across its border)"""
            keys = sorted(self.h.touched)
            x, y, z = keys[pick % len(keys)]
            lim = 2 ** z - 1
            return (min(max(x + dx, 0), lim), min(max(y + dy, 0), lim), z)

        @precondition(lambda self: self.h is not None and self.h.touched)
        @rule(pick=st.integers(0, 10 ** 6), dx=st.integers(-2, 2), dy=st.integers(-2, 2), size=sizes(tier), tag=TAGS)
        def store_near(self, pick, dx, dy, size, tag):
            self.do({'op': 'store', 'tiles': [list(self.near(pick, dx, dy)) + [size, tag]]})

        @precondition(lambda self: self.h is not None and self.h.touched)
        @rule(pick=st.integers(0, 10 ** 6), dx=st.integers(-2, 2), dy=st.integers(-2, 2), w=st.integers(1, 3), h=st.integers(1, 2),
              bulk=st.booleans())
        def remove_near(self, pick, dx, dy, w, h, bulk):
            x, y, z = self.near(pick, dx, dy)
            cs = self.removable([(x + i, y + j, z) for j in range(h) for i in range(w) if max(x + i, y + j) < 2 ** z])
            if cs:
                self.do({'op': 'remove', 'bulk': bulk, 'coords': [list(c) for c in cs]})

        @rule(cs=st.lists(coords(), min_size=1, max_size=2, unique=True), bulk=st.booleans())
        def remove_any(self, cs, bulk):
            cs = self.removable(sorted(set(resolve(c, self.anchor_list) for c in cs)))
            if cs:
                self.do({'op': 'remove', 'bulk': bulk, 'coords': [list(c) for c in cs]})

        @precondition(lambda self: self.h is not None and len(self.h.model) > 2)
        @rule(pick=st.integers(0, 10 ** 6))
        def remove_level(self, pick):
            self.do({'op': 'remove_level', 'level': self.pick_present([pick])[0][2]})

        @rule(cs=st.one_of(blocks(), st.lists(coords(), min_size=1, max_size=2, unique=True)),
              picks=st.lists(st.integers(0, 10 ** 6), max_size=4), bulk=st.booleans(), reopen=st.integers(0, 2))
        def probe(self, cs, picks, bulk, reopen):
            if isinstance(cs, tuple):
                cs = block(cs, self.anchor_list)
            else:
                cs = sorted(set(resolve(c, self.anchor_list) for c in cs))
            if self.h is not None and self.h.model:
                cs = [c for c in self.pick_present(picks) if c not in cs] + cs[:2]
            if reopen == 0:
                self.do({'op': 'reopen'})
            self.do({'op': 'probe', 'bulk': bulk, 'coords': [list(c) for c in cs]})

        @precondition(lambda self: self.h is not None and self.h.touched)
        @rule(percent=st.sampled_from(PERCENTS), mb=st.sampled_from(MBS), dry=st.integers(0, 7))
        def defrag(self, percent, mb, dry):
            self.do({'op': 'defrag', 'min_percent': percent, 'min_mb': mb, 'dry_run': dry == 0})

        def teardown(self):
            if self.h is not None:
                try:
                    self.h.finish()
                finally:
                    self.h.close()
                    self.h = None

    CompactMachine.__name__ = 'CompactMachine_' + tier
    return CompactMachine


# ------------------------------------------------------------------------------------------------


def machine_shard(shard, nshards, seed, tier):
    import logging
    logging.getLogger('mapproxy').setLevel(logging.ERROR)
    st_ = core.Stats()
    if tier == 'quick':
        n, steps = 1600 // nshards, 30
    else:
        n, steps = 48000 // nshards, 50
    core.run_machine(make_machine(tier), st_, max_examples=n, seed=seed, step_count=steps)
    return st_


def run(tier, seed, stats):
    stats.merge(core.parallel(machine_shard, 16, seed, tier))


def replay(case, stats):
    import logging
    logging.getLogger('mapproxy').setLevel(logging.ERROR)
    h = Harness(case['version'], stats)
    try:
        for step in case['steps']:
            step = dict(step)
            v = h.apply(step)
            if v is not None:
                return [v]
            if h.dead:
                break
        h.finish()
        return []
    finally:
        h.close()
