"""C12 - Cleanup removes exactly the expired tiles it was asked to remove.

Generated mapproxy.yaml + seed.yaml pairs are loaded through the real configuration loaders, the cache
is filled through the real backend with tiles of generated ages, bystanders are planted around it, the
real `cleanup()` runs, and what is left is compared with a specification of what must remain.
See DESIGN.md section 13.
"""
import contextlib
import datetime
import io
import logging
import os
import shutil
import stat
import tempfile
import time
import types

from hypothesis import strategies as st

from .. import core

PROPERTY = 'C12'
LEVEL = 'exploration'
RULE = ('Hypothesis-generated cleanup scenarios: a mapproxy.yaml (grid: global mercator nw/sw, geodetic, local '
        'UTM factor-2 / sqrt2 / custom-resolution pyramids; backend file tc/mp/tms/arcgis/reverse_tms/quadkey, '
        'sqlite, mbtiles, geopackage (+levels), compact v1/v2; meta size) and a seed.yaml cleanup task '
        '(remove_all / remove_before as ISO time, datetime, mtime-file, relative delta / default start time; '
        'levels as list, from-to range, resolution range or absent; full extent or coverage as bbox, WKT '
        'polygon(s), two coverages, other SRS) are loaded with the real loaders; the cache is filled through the '
        'real backend with 8-28 tiles over 2-5 levels whose ages are clearly older / clearly newer / within '
        '+-1 s of T, bystanders (sibling cache, second grid of the same cache, single_color_tiles/, tile_locks/, '
        'unrelated files, decoy level directories) are planted, the real cleanup() runs and the remaining '
        'contents are compared with the specification; full-extent cases are re-run on identical contents with '
        'an all-covering coverage so the directory walk / bulk delete / tile walk are compared. A case is '
        'non-trivial when a selected AND an unselected level both hold tiles and at least one tile must be '
        'removed and one cache tile must be kept (for remove_before: tiles on both sides of T); distinct = '
        'distinct generated scenarios.')
ASSUMPTIONS = [
    'tiles within +-1 s of T are accepted either way (float mtime `<` vs int(ts) `<=` vs second-granular sqlite)',
    'coverage completeness is demanded only for tiles with a witness point of their meta tile inside the coverage '
    'that lies > 0.1 px of the coarsest level inside the coverage bbox, > 1.5 px of it inside the grid bbox and '
    '> 0.2 px from every coarser tile edge (excuses exactly the C11 ancestor-inset / ancestor-grid-gap strip); '
    'tiles whose meta tile is farther than 0.1 px (own level) from the coverage must be kept; in between either way',
    'a cleanup that aborts with GridError (coverage thinner than 0.2 px at a traversed level, DESIGN 23 #11) is '
    'counted as aborted, not judged for completeness (removals it made are still judged)',
    'the worker processes of the tile walk are replaced by an in-process pool running the real '
    'TileCleanupWorker.work_loop (daemonic shard processes cannot fork); a few cases per run use the real '
    'multiprocessing pool in the main process',
    'TZ=UTC; backends without timestamps hold tiles stored at the real time of the run',
    'non-tile files placed inside a level directory are not judged (the level directory belongs to the cache)',
    'coverages of the global EPSG:3857 / EPSG:4326 grids stay inside the valid area of the coordinate system '
    '(a coverage 0.05 px beyond the date line wraps around in MultiCoverage.extent and loses its eastern part)',
]

SIG_QUADKEY = 'C12/file:quadkey/full/abort-NotImplementedError'
SIG_TMS = 'C12/file:tms/full/level_location-mismatch'
SIG_GPKG_LEVELS = 'C12/geopackage_levels/remove_before-accepted-without-timestamps'

FILE_LAYOUTS = ['tc', 'mp', 'tms', 'arcgis', 'reverse_tms', 'quadkey']
BACKENDS = ['file:' + l for l in FILE_LAYOUTS] + ['sqlite', 'mbtiles', 'geopackage', 'geopackage_levels',
                                                    'compact1', 'compact2']
TIMESTAMP_BACKENDS = set(['file:' + l for l in FILE_LAYOUTS] + ['sqlite'])
LEVEL_DIR_LAYOUTS = ('file:tc', 'file:mp', 'file:tms', 'file:arcgis')
# storage of these is separated per grid by construction (directory contains the grid name / SRS)
MULTIGRID_BACKENDS = set(['file:' + l for l in FILE_LAYOUTS] + ['sqlite', 'geopackage_levels', 'compact1', 'compact2'])

OLD = [-400 * 86400.0, -86400.0, -3600.0, -61.0, -5.0, -1.25]
NEW = [1.25, 5.0, 61.0, 3600.0, 30 * 86400.0]
BAND = [-1.0, -0.75, -0.5, -0.001, 0.0, 0.001, 0.5, 0.999, 1.0]

_PNG = {}


def _png(color):
    if color not in _PNG:
        from PIL import Image
        buf = io.BytesIO()
        Image.new('RGB', (4, 4), color).save(buf, 'PNG')
        _PNG[color] = buf.getvalue()
    return _PNG[color]


def _quiet_logging():
    lg = logging.getLogger('mapproxy')
    if not any(isinstance(h, logging.NullHandler) for h in lg.handlers):
        lg.addHandler(logging.NullHandler())
    lg.propagate = False


def _scratch(prefix, base=None):
    """scratch directory (always tempfile.mkdtemp, removed by the caller); tmpfs when there is one,
    because every sqlite commit is an fsync"""
    if base is None and os.path.isdir('/dev/shm') and os.access('/dev/shm', os.W_OK):
        base = '/dev/shm'
    return tempfile.mkdtemp(prefix=prefix, dir=base)


def _dumper():
    import yaml
    return getattr(yaml, 'CSafeDumper', yaml.SafeDumper)


_PLUGINS = {'loaded': False}


def _load_configuration(path):
    """load_configuration(); the entry-point scan for plugins (11 ms of importlib.metadata per call, idempotent)
    is done for real only once per process"""
    from mapproxy.config import loader
    orig = loader.load_plugins
    if _PLUGINS['loaded']:
        loader.load_plugins = lambda: None
    try:
        conf = loader.load_configuration(path, seed=True)
        _PLUGINS['loaded'] = True
        return conf
    finally:
        loader.load_plugins = orig


# server time zones (process TZ of the code under test): UTC, west / east of UTC, with and without DST
ZONES = ['UTC', 'America/Los_Angeles', 'America/Phoenix', 'America/Sao_Paulo', 'Europe/Berlin', 'Asia/Kolkata',
         'Asia/Tokyo', 'Pacific/Auckland']


def _set_tz(zone):
    """make `zone` the process time zone; returns the previous TZ value for _restore_tz"""
    prev = os.environ.get('TZ')
    os.environ['TZ'] = zone
    time.tzset()
    if zone != 'UTC' and time.localtime(1500000000).tm_gmtoff == 0:
        _restore_tz(prev)
        raise core.HarnessError('TZ=%s is not in effect (tz database missing?)' % zone)
    return prev


def _restore_tz(prev):
    if prev is None:
        os.environ.pop('TZ', None)
    else:
        os.environ['TZ'] = prev
    time.tzset()


def _local_string(ts):
    return time.strftime('%Y-%m-%d %H:%M:%S', time.localtime(int(ts // 1)))


# ------------------------------------------------------------------------------------------------
# generators

GRID_KINDS = ['webmerc', 'webmerc', 'merc_sw', 'geodetic', 'geodetic_nw', 'local', 'local', 'sqrt2', 'custom']
QUAD_KINDS = ['webmerc', 'merc_sw', 'geodetic']
EDGE_OFFSETS = [0.0, 0.0, 0.0, 0.05, -0.05, 0.15, -0.15, 0.5, -0.5, 37.3, -100.7, 128.0, 3.0, -3.0]


@st.composite
def grid_defs(draw, kinds):
    kind = draw(st.sampled_from(kinds))
    g = {'kind': kind, 'levels': draw(st.integers(3, 6)),
         'tile': draw(st.sampled_from([256, 256, 256, 128, 512]))}
    if kind in ('local', 'sqrt2', 'custom'):
        g['x0'] = draw(st.sampled_from([300000.0, 280000.5, 412345.678]))
        g['y0'] = draw(st.sampled_from([5200000.0, 5312345.25]))
        g['w'] = draw(st.sampled_from([256000.0, 100000.0, 333333.3, 70000.0]))
        g['h'] = draw(st.sampled_from([256000.0, 100000.0, 180000.0, 333333.3]))
        g['origin'] = draw(st.sampled_from(['sw', 'nw']))
    return g


def _draw_levels(draw, content, n):
    ncl = len(content)
    lk = draw(st.sampled_from(['none', 'list', 'list', 'list', 'list', 'list', 'range', 'range', 'range', 'range', 'res_range', 'res_range']))
    if lk == 'none':
        return None
    elif lk == 'list':
        sub = draw(st.lists(st.sampled_from(content), min_size=1, max_size=max(1, min(3, ncl - 1)), unique=True))
        extra = draw(st.lists(st.integers(-1, n + 1), max_size=2))
        return ['list', sub + extra]
    elif lk == 'range':
        a = draw(st.sampled_from([None, None] + content * 6 + [n]))
        b = draw(st.sampled_from([None, None] + [c for c in content if a is None or c >= a] * 6 + [n + 2, 0]))
        if a is None and b is None:
            b = content[0]
        return ['range', a, b]
    else:
        a = draw(st.sampled_from(content))
        b = draw(st.sampled_from([c for c in content if c >= a]))
        ab = draw(st.sampled_from([(a, b), (a, b), (a, None), (None, b)]))
        if ab[0] is None and b == n - 1:
            ab = (a, b)
        if ab[1] is None and a == 0:
            ab = (a, b)
        return ['res_range', ab[0], ab[1]]


@st.composite
def cases(draw, only_tilewalk=False):
    backend = draw(st.sampled_from(BACKENDS + ['file:tc', 'file:tms', 'sqlite', 'file:reverse_tms']))
    if only_tilewalk and backend not in TIMESTAMP_BACKENDS:
        backend = 'file:tc'
    grid = draw(grid_defs(QUAD_KINDS if backend == 'file:quadkey' else GRID_KINDS))
    n = grid['levels']
    case = {'backend': backend, 'grid': grid,
            'meta': draw(st.sampled_from([[1, 1], [2, 2], [2, 2], [4, 4], [3, 2], [1, 2]])),
            'wms_source': draw(st.booleans())}
    ncl = draw(st.integers(2, min(5, n)))
    content = sorted(draw(st.sets(st.integers(0, n - 1), min_size=ncl, max_size=ncl)))
    case['content_levels'] = content

    # what to remove
    if backend in TIMESTAMP_BACKENDS:
        mode = draw(st.sampled_from(['before', 'before', 'before', 'before', 'all', 'default', 'all+before']))
    else:
        mode = draw(st.sampled_from(['all', 'all', 'all', 'default', 'default', 'before', 'all+before']))
    case['mode'] = mode
    case['tkind'] = draw(st.sampled_from(['time', 'time_dt', 'mtime', 'mtime', 'delta']))
    case['T0'] = 1500000000 + draw(st.integers(0, 10 ** 8))
    case['Tfrac'] = draw(st.sampled_from([0.0, 0.5, 0.25, 0.999, 0.001, 0.73]))
    case['delta'] = draw(st.sampled_from([{'hours': 5}, {'days': 2}, {'weeks': 1, 'days': 1}, {'minutes': 90},
                                          {'seconds': 7200}, {'days': 1, 'hours': 2, 'minutes': 3}]))
    case['t_future'] = draw(st.booleans())   # only for backends without timestamps that accept remove_before

    # level selection
    case['levels'] = _draw_levels(draw, content, n)

    # coverage
    if draw(st.integers(0, 99)) < (0 if only_tilewalk else 45):
        case['cov'] = None
    else:
        edge = st.tuples(st.floats(0.0, 1.0), st.sampled_from(EDGE_OFFSETS))
        cov = {'type': draw(st.sampled_from(['bbox', 'bbox', 'tri', 'L', 'diamond', 'two', 'task2'])),
               'level': draw(st.integers(0, n - 1)),
               'edges': [list(draw(edge)) for _ in range(4)],
               'split': [draw(st.sampled_from([0.5, 0.25, 0.6, 0.75])), draw(st.sampled_from([0.5, 0.3, 0.7]))],
               'rot': draw(st.integers(0, 3)),
               'srs': draw(st.sampled_from(['grid', 'grid', 'grid', '4326']))}
        case['cov'] = cov

    # tiles: (content-level index, placement code, age); placement < 10**6: fractional position in the level's
    # grid (fx = code // 1000 / 1000, fy = code % 1000 / 1000), else relative to a corner of the coverage frame
    tl = draw(st.lists(st.tuples(st.integers(0, ncl - 1),
                                 st.one_of(st.integers(0, 999999), st.integers(1000000, 1000099)),
                                 st.sampled_from(OLD + OLD + NEW + NEW + BAND)), min_size=8, max_size=28))
    tiles = []
    for li, code, age in tl:
        if code < 1000000:
            # even codes: position in the grid; odd codes: position in the coverage frame widened by 25 %
            place = ['u' if code % 2 == 0 else 'f', (code // 1000) / 1000.0, (code % 1000) / 1000.0]
        else:
            c = code - 1000000
            place = ['e', c % 4, (c // 4) % 5 - 2, (c // 20) % 5 - 2]
        tiles.append([li, place, age])
    case['tiles'] = tiles

    case['by'] = {'sibling': draw(st.booleans()), 'grid2': draw(st.booleans()), 'files': draw(st.booleans()),
                  'decoys': draw(st.booleans()), 'locks': draw(st.booleans()),
                  'single_color': draw(st.booleans())}
    case['link_sc'] = draw(st.sampled_from([False, False, True]))
    case['dir_opt'] = draw(st.sampled_from([False, False, True]))
    case['plog'] = draw(st.booleans())
    case['concurrency'] = draw(st.sampled_from([1, 2, 2, 3]))
    case['twin'] = draw(st.sampled_from([False, True]))
    # injected race: these tile files (index into the resolved tile list) are removed by a "concurrent actor"
    # just before the cleanup's own lstat / remove of that file
    if backend.startswith('file:') and draw(st.integers(0, 9)) < 4:
        case['faults'] = [list(f) for f in draw(st.lists(
            st.tuples(st.integers(0, 27), st.sampled_from(['lstat', 'lstat', 'remove'])), min_size=1, max_size=3))]
    else:
        case['faults'] = []
    # server time zone (ages and T stay instants; only their local-time spelling depends on it)
    case['tz'] = draw(st.sampled_from(['UTC', 'UTC', 'UTC'] + ZONES[1:] + (['America/Los_Angeles', 'Asia/Kolkata']
                                                                           if backend in ('sqlite',) else [])))
    # deep pyramids: full extent only (a tile walk over 12+ levels is out of budget), content at one-digit and
    # two-digit levels so that level names that are prefixes of each other (1 / 10-19, 2 / 20) meet
    if not only_tilewalk and draw(st.integers(0, 99)) < 12:
        n = draw(st.integers(12, 21))
        case['grid'] = {'kind': 'deep', 'levels': n, 'tile': 256}
        if backend in ('file:reverse_tms', 'file:quadkey'):
            case['backend'] = backend = draw(st.sampled_from(['file:tms', 'file:tc', 'geopackage_levels', 'sqlite']))
            if backend not in TIMESTAMP_BACKENDS and case['mode'] == 'before':
                case['mode'] = 'all'
        pool_ = [l for l in (0, 1, 2, 3, 10, 11, 12, 13, 19, 20) if l < n]
        low = draw(st.sampled_from([1, 2, 1, 2, 0, 3]))
        high = draw(st.sampled_from([l for l in pool_ if l >= 10]))
        more = draw(st.sets(st.sampled_from(pool_), max_size=3))
        content = sorted(set([low, high]) | more)
        case['content_levels'] = content
        case['levels'] = _draw_levels(draw, content, n)
        case['cov'] = None
        case['twin'] = False
        case['faults'] = [] if not backend.startswith('file:') else case['faults']
    return case


# ------------------------------------------------------------------------------------------------
# configuration files

def grid_conf(g):
    kind, n, ts = g['kind'], g['levels'], g.get('tile', 256)
    if kind in ('webmerc', 'deep'):
        c = {'srs': 'EPSG:3857', 'origin': 'nw', 'num_levels': n}
    elif kind == 'merc_sw':
        c = {'srs': 'EPSG:3857', 'origin': 'sw', 'num_levels': n}
    elif kind == 'geodetic':
        c = {'srs': 'EPSG:4326', 'origin': 'sw', 'bbox': [-180, -90, 180, 90], 'num_levels': n}
    elif kind == 'geodetic_nw':
        c = {'srs': 'EPSG:4326', 'origin': 'nw', 'bbox': [-180, -90, 180, 90], 'num_levels': n}
    else:
        c = {'srs': 'EPSG:25832', 'origin': g['origin'],
             'bbox': [g['x0'], g['y0'], g['x0'] + g['w'], g['y0'] + g['h']]}
        if kind == 'local':
            c['num_levels'] = n
        elif kind == 'sqrt2':
            c['num_levels'] = n
            c['res_factor'] = 'sqrt2'
        else:
            r0 = max(g['w'], g['h']) / float(ts)
            c['res'] = [r0 / f for f in (1, 2, 5, 10, 20, 50)][:n]
    c['tile_size'] = [ts, ts]
    return c


def is_regular(g):
    return g['kind'] not in ('sqrt2', 'custom')


def cache_conf(name, backend, grids, case, root):
    c = {'grids': grids, 'meta_size': list(case['meta']),
         'sources': ['wms1'] if case.get('wms_source') else []}
    if backend.startswith('file:'):
        c['cache'] = {'type': 'file', 'directory_layout': backend.split(':')[1]}
        if case.get('link_sc'):
            c['link_single_color_images'] = True
        if case.get('dir_opt') and len(grids) == 1:
            c['cache']['directory'] = os.path.join(root, 'dir_' + name)
    elif backend == 'sqlite':
        c['cache'] = {'type': 'sqlite'}
    elif backend == 'mbtiles':
        c['cache'] = {'type': 'mbtiles', 'filename': name + '.mbtiles'}
    elif backend == 'geopackage':
        c['cache'] = {'type': 'geopackage', 'filename': name + '.gpkg', 'table_name': 'tiles_' + name}
    elif backend == 'geopackage_levels':
        c['cache'] = {'type': 'geopackage', 'levels': True, 'table_name': 'tiles_' + name}
    elif backend == 'compact1':
        c['cache'] = {'type': 'compact', 'version': 1}
    elif backend == 'compact2':
        c['cache'] = {'type': 'compact', 'version': 2}
    else:
        raise core.HarnessError('unknown backend %r' % backend)
    return c


def iso(ts):
    """`remove_before: time:` strings mean server-local time (mktime of the naive value): written in the local
    time of the case's zone; iso_meaning() is what the C library makes of such a string (DST gaps / overlaps)"""
    return time.strftime('%Y-%m-%dT%H:%M:%S', time.localtime(int(ts)))


def iso_meaning(s):
    return time.mktime(time.strptime(s, '%Y-%m-%dT%H:%M:%S'))


def write_configs(case, root, cov_override=None):
    """Write mapproxy.yaml, seed.yaml (+ coverage / reference-time files).  Returns a dict with what the
    oracle needs to know about the *configured* meaning: T (or None), refused-expected, names."""
    import yaml
    backend = case['backend']
    grids = {'g1': grid_conf(case['grid'])}
    two_grids = bool(case['by'].get('grid2')) and backend in MULTIGRID_BACKENDS
    if two_grids:
        # a second grid of the same cache with separate storage (other SRS); the task names g1 only
        g2 = {'srs': 'EPSG:4326', 'origin': 'sw', 'bbox': [-180, -90, 180, 90], 'num_levels': 4}
        if grids['g1']['srs'] == 'EPSG:4326':
            g2 = {'srs': 'EPSG:3857', 'origin': 'nw', 'num_levels': 4}
        grids['g2'] = g2
    caches = {'main': cache_conf('main', backend, ['g1', 'g2'] if two_grids else ['g1'], case, root)}
    if case['by'].get('sibling'):
        caches['main_b'] = cache_conf('main_b', backend, ['g1'], case, root)
    mp = {
        'services': {'tms': {}},
        'globals': {'cache': {'base_dir': os.path.join(root, 'cache_data'),
                              'lock_dir': os.path.join(root, 'cache_data', 'locks')},
                    'image': {'paletted': False}},
        'grids': grids,
        'caches': caches,
        'layers': [{'name': 'main', 'title': 'main', 'sources': ['main']}],
    }
    if case.get('wms_source'):
        mp['sources'] = {'wms1': {'type': 'wms', 'req': {'url': 'http://127.0.0.1:1/service', 'layers': 'x'}}}
    mp_file = os.path.join(root, 'mapproxy.yaml')
    with open(mp_file, 'w') as f:
        yaml.dump(mp, f, Dumper=_dumper())

    task = {'caches': ['main']}
    if two_grids:
        task['grids'] = ['g1']
    info = {'T': None, 'T_slack': 0.0, 'remove_all': False, 'two_grids': two_grids}
    mode, tkind = case['mode'], case['tkind']
    if mode in ('all', 'all+before'):
        task['remove_all'] = True
        info['remove_all'] = True
    if mode in ('before', 'all+before'):
        T = case['T0']
        if tkind == 'time':
            task['remove_before'] = {'time': iso(T)}
            T = iso_meaning(iso(T))
        elif tkind == 'time_dt':
            task['remove_before'] = {'time': datetime.datetime(*time.localtime(T)[:6])}
            T = iso_meaning(iso(T))
        elif tkind == 'mtime':
            ref = os.path.join(root, 'reference.time')
            with open(ref, 'w') as f:
                f.write('x')
            os.utime(ref, (T + case['Tfrac'], T + case['Tfrac']))
            T = os.stat(ref).st_mtime
            task['remove_before'] = {'mtime': ref}
        else:
            task['remove_before'] = dict(case['delta'])
            delta = datetime.timedelta(**case['delta']).total_seconds()
            T = time.time() - delta
            info['T_slack'] = 600.0 if (case.get('tz') or 'UTC') == 'UTC' else 4300.0
        if mode == 'before':
            info['T'] = T
            if backend not in TIMESTAMP_BACKENDS:
                # tiles of such a backend are as old as this run: choose T clearly before / after now
                if case.get('t_future'):
                    T = int(time.time()) + 10 * 86400
                else:
                    T = int(time.time()) - 10 * 86400
                task['remove_before'] = {'time': iso(T)}
                info['T'] = T
                info['T_slack'] = 0.0
    elif mode == 'default':
        if backend in TIMESTAMP_BACKENDS:
            info['T'] = time.time()
            info['T_slack'] = 600.0 if (case.get('tz') or 'UTC') == 'UTC' else 4300.0
        else:
            info['remove_all'] = True   # documented: caches without timestamps -> remove everything

    lv = case['levels']
    if lv is not None:
        if lv[0] == 'list':
            task['levels'] = [int(v) for v in lv[1]]
        elif lv[0] == 'range':
            d = {}
            if lv[1] is not None:
                d['from'] = lv[1]
            if lv[2] is not None:
                d['to'] = lv[2]
            if d:
                task['levels'] = d
        # res_range needs the resolutions of the built grid: filled in by run_once
    info['task'] = task
    info['mp_file'] = mp_file
    return info


def expected_levels(case, n, resolutions_ok=True):
    lv = case['levels']
    if lv is None:
        return list(range(n))
    if lv[0] == 'list':
        return sorted(set(v for v in lv[1] if 0 <= v <= n - 1))
    if lv[0] == 'range':
        if lv[1] is None and lv[2] is None:
            return list(range(n))
        a = 0 if lv[1] is None else lv[1]
        b = n - 1 if lv[2] is None else min(lv[2], n - 1)
        return list(range(a, b + 1))
    a = 0 if lv[1] is None else lv[1]
    b = n - 1 if lv[2] is None else lv[2]
    if lv[1] is None and lv[2] is None:
        return list(range(n))
    return list(range(a, b + 1))


# ------------------------------------------------------------------------------------------------
# geometry of the coverage and of meta tiles (reference side)

def _edge_x(grid, lc, e):
    res = grid.resolutions[lc]
    gsx = grid.grid_sizes[lc][0]
    ix = int(round(e[0] * gsx))
    return grid.bbox[0] + ix * grid.tile_size[0] * res + e[1] * res


def _edge_y(grid, lc, e):
    res = grid.resolutions[lc]
    gsy = grid.grid_sizes[lc][1]
    iy = int(round(e[0] * gsy))
    if grid.flipped_y_axis:
        return grid.bbox[3] - iy * grid.tile_size[1] * res - e[1] * res
    return grid.bbox[1] + iy * grid.tile_size[1] * res + e[1] * res


def coverage_frame(grid, cov):
    lc = min(cov['level'], grid.levels - 1)
    xs = sorted([_edge_x(grid, lc, cov['edges'][0]), _edge_x(grid, lc, cov['edges'][1])])
    ys = sorted([_edge_y(grid, lc, cov['edges'][2]), _edge_y(grid, lc, cov['edges'][3])])
    res = grid.resolutions[lc]
    tw, th = grid.tile_size[0] * res, grid.tile_size[1] * res
    b = grid.bbox
    is_global = grid.srs.srs_code in ('EPSG:3857', 'EPSG:4326')

    def clamp(xs, ys):
        # the global grids end where the coordinate system ends: coordinates beyond it are not valid input
        # (longitudes wrap around when the coverage extent is computed) - every real coverage respects that
        if is_global:
            xs = [min(max(v, b[0]), b[2]) for v in xs]
            ys = [min(max(v, b[1]), b[3]) for v in ys]
        return xs, ys
    xs, ys = clamp(xs, ys)

    def widen(vs, span, lo, hi):
        # a degenerate frame becomes one tile wide, inside [lo, hi] (the global grids) where that matters
        if vs[1] - vs[0] >= 1e-6 * span:
            return vs
        if not is_global:
            return [vs[0], vs[0] + span]
        a = min(max(vs[0], lo), hi)
        if a + span <= hi:
            return [a, a + span]
        return [max(lo, hi - span), hi]
    xs = widen(xs, tw, b[0], b[2])
    ys = widen(ys, th, b[1], b[3])
    if is_global and not (b[0] <= xs[0] < xs[1] <= b[2] and b[1] <= ys[0] < ys[1] <= b[3]):
        raise core.HarnessError('coverage frame %r outside the valid area %r' % ((xs, ys), b))
    return [xs[0], ys[0], xs[1], ys[1]]


def coverage_parts(frame, cov):
    """list of parts; a part is ('bbox', [..]) or ('poly', [(x, y), ...]); parts of one coverage are united"""
    x0, y0, x1, y1 = frame
    sx, sy = cov['split']
    xm, ym = x0 + sx * (x1 - x0), y0 + sy * (y1 - y0)
    t = cov['type']
    if t == 'bbox':
        return [[('bbox', frame)]]
    if t == 'tri':
        corners = [(x0, y0), (x1, y0), (x1, y1), (x0, y1)]
        r = cov['rot']
        return [[('poly', [corners[r % 4], corners[(r + 1) % 4], corners[(r + 3) % 4]])]]
    if t == 'L':
        return [[('poly', [(x0, y0), (x1, y0), (x1, ym), (xm, ym), (xm, y1), (x0, y1)])]]
    if t == 'diamond':
        cx, cy = (x0 + x1) / 2, (y0 + y1) / 2
        return [[('poly', [(x0, cy), (cx, y0), (x1, cy), (cx, y1)])]]
    xa, xb = x0 + 0.3 * (x1 - x0), x0 + 0.6 * (x1 - x0)
    if t == 'two':
        return [[('poly', [(x0, y0), (xa, y0), (xa, y1), (x0, y1)]),
                 ('poly', [(xb, y0), (x1, y0), (x1, ym), (xb, ym)])]]
    # task2: two coverages named by the task
    return [[('bbox', [x0, y0, xa, y1])], [('poly', [(xb, y0), (x1, y0), (x1, y1)])]]


def write_coverages(case, grid, root, frame=None):
    """-> (seed.yaml `coverages` dict, list of names, reference geometry in grid SRS)"""
    import shapely.geometry as sg
    import shapely.ops
    cov = case['cov']
    grid_srs = grid.srs.srs_code
    if frame is None:
        frame = coverage_frame(grid, cov)
    use4326 = cov['srs'] == '4326' and grid_srs == 'EPSG:3857' and cov['type'] == 'bbox'
    if use4326:
        import pyproj
        b = grid.bbox
        frame = [max(frame[0], b[0]), max(frame[1], b[1]), min(frame[2], b[2]), min(frame[3], b[3])]
        if frame[2] - frame[0] <= 0 or frame[3] - frame[1] <= 0:
            frame = list(b)
        inv = pyproj.Transformer.from_crs('EPSG:3857', 'EPSG:4326', always_xy=True)
        fwd = pyproj.Transformer.from_crs('EPSG:4326', 'EPSG:3857', always_xy=True)
        lo = inv.transform(frame[0], frame[1])
        hi = inv.transform(frame[2], frame[3])
        ll = [lo[0], lo[1], hi[0], hi[1]]
        a = fwd.transform(ll[0], ll[1])
        c = fwd.transform(ll[2], ll[3])
        geom = sg.box(a[0], a[1], c[0], c[1])
        return {'cov0': {'bbox': ll, 'srs': 'EPSG:4326'}}, ['cov0'], geom
    confs, names, geoms = {}, [], []
    for i, parts in enumerate(coverage_parts(frame, cov)):
        name = 'cov%d' % i
        names.append(name)
        if len(parts) == 1 and parts[0][0] == 'bbox':
            confs[name] = {'bbox': [float(v) for v in parts[0][1]], 'srs': grid_srs}
            geoms.append(sg.box(*parts[0][1]))
        else:
            fn = os.path.join(root, name + '.txt')
            with open(fn, 'w') as f:
                for kind, pts in parts:
                    ring = list(pts) + [pts[0]]
                    f.write('POLYGON((%s))\n' % ', '.join('%.17g %.17g' % p for p in ring))
                    geoms.append(sg.Polygon(pts))
            confs[name] = {'datasource': fn, 'srs': grid_srs}
    geom = shapely.ops.unary_union(geoms) if len(geoms) > 1 else geoms[0]
    return confs, names, geom


def meta_bbox(grid, meta, coord):
    x, y, z = coord
    gs = grid.grid_sizes[z]
    mx, my = min(meta[0], gs[0]), min(meta[1], gs[1])
    x0, y0 = x // mx * mx, y // my * my
    a = grid.tile_bbox((x0, y0, z))
    b = grid.tile_bbox((x0 + mx - 1, y0 + my - 1, z))
    return (min(a[0], b[0]), min(a[1], b[1]), max(a[2], b[2]), max(a[3], b[3]))


_FR = [(2 * i + 1) / 16.0 for i in range(8)]


def geo_class(grid, meta, coord, geom, gbbox, regular):
    """'in' (must be reached), 'out' (must not be touched) or 'touch' (either way)"""
    import shapely
    import shapely.geometry as sg
    z = coord[2]
    M = meta_bbox(grid, meta, coord)
    res_z = grid.resolutions[z]
    res_0 = grid.resolutions[0]
    scale = max(abs(v) for v in grid.bbox)
    box = sg.box(*M)
    if geom.distance(box) > 0.1 * res_z + 1e-9 * scale:
        return 'out'
    # witness point search on a lattice over M n bbox(G) n grid bbox
    B = grid.bbox
    r = (max(M[0], gbbox[0], B[0]), max(M[1], gbbox[1], B[1]), min(M[2], gbbox[2], B[2]), min(M[3], gbbox[3], B[3]))
    if r[2] <= r[0] or r[3] <= r[1]:
        return 'touch'
    d0 = 0.105 * res_0
    dg = 1.5 * res_0
    xs = [r[0] + f * (r[2] - r[0]) for f in _FR]
    ys = [r[1] + f * (r[3] - r[1]) for f in _FR]

    def ok_axis(v, axis):
        lo, hi = gbbox[axis], gbbox[axis + 2]
        if not (v - lo > d0 and hi - v > d0):
            return False
        if not (v - B[axis] > dg and B[axis + 2] - v > dg):
            return False
        if not (v - M[axis] > 0.2 * res_z and M[axis + 2] - v > 0.2 * res_z):
            return False
        for k in range(0, z + 1):
            rk = grid.resolutions[k]
            span = grid.tile_size[axis] * rk
            if axis == 1 and grid.flipped_y_axis:
                t = (B[3] - v) / span
            else:
                t = (v - B[axis]) / span
            fr = t - int(t)
            if min(fr, 1 - fr) * grid.tile_size[axis] < 0.2:
                return False
        return True
    xs = [v for v in xs if ok_axis(v, 0)]
    ys = [v for v in ys if ok_axis(v, 1)]
    if not xs or not ys:
        return 'touch'
    px = [x for x in xs for _ in ys]
    py = [y for _ in xs for y in ys]
    inside = shapely.contains_xy(geom, px, py)
    return 'in' if bool(inside.any()) else 'touch'


# ------------------------------------------------------------------------------------------------
# harness pieces

class _TimeShim(object):
    """stands in for the `time` module inside mapproxy.cache.mbtiles while a tile is stored"""

    def __init__(self, now):
        self._now = now
        self.strptime = time.strptime
        self.mktime = time.mktime

    def time(self):
        return self._now


class _Q(object):
    def __init__(self):
        self.items = []

    def get(self):
        return self.items.pop(0)


class _RacingOs(object):
    """Stands in for the `os` module as seen from mapproxy.util.fs / mapproxy.cache.file while the cleanup runs:
    a victim file is removed by a "concurrent actor" immediately before the cleanup's own lstat/stat (op 'lstat')
    or remove/unlink (op 'remove') of that path, so the real call fails with ENOENT exactly as in the race."""

    def __init__(self, real, victims, vanished):
        self._real = real
        self._victims = victims      # normalised path -> op
        self._vanished = vanished    # set of normalised paths actually taken away

    def __getattr__(self, name):
        return getattr(self._real, name)

    def _hit(self, path, op):
        try:
            p = self._real.path.normpath(self._real.fspath(path))
        except TypeError:
            return
        if self._victims.get(p) == op and p not in self._vanished:
            try:
                self._real.remove(p)
                self._vanished.add(p)
            except OSError:
                pass

    def lstat(self, path, *a, **k):
        self._hit(path, 'lstat')
        return self._real.lstat(path, *a, **k)

    def stat(self, path, *a, **k):
        self._hit(path, 'lstat')
        return self._real.stat(path, *a, **k)

    def remove(self, path, *a, **k):
        self._hit(path, 'remove')
        return self._real.remove(path, *a, **k)

    def unlink(self, path, *a, **k):
        self._hit(path, 'remove')
        return self._real.unlink(path, *a, **k)


class InlinePool(object):
    """Drop-in for seeder.TileWorkerPool: hands every batch to the real TileCleanupWorker.work_loop in
    this process (the shard processes are daemonic and cannot fork workers)."""

    def __init__(self, task, worker_class, size=2, dry_run=False, progress_logger=None):
        from mapproxy.config import base_config
        self.task = task
        self.worker_class = worker_class
        self.dry_run = dry_run
        self.progress_logger = progress_logger
        self.conf = base_config()
        self.q = _Q()
        self.standin = types.SimpleNamespace(task=task, tile_mgr=task.tile_manager, tiles_queue=self.q,
                                             conf=self.conf)

    def process(self, tiles, progress):
        from mapproxy.config import local_base_config
        if not self.dry_run:
            self.q.items = [tiles, None]
            with local_base_config(self.conf):
                self.worker_class.work_loop(self.standin)
            if self.progress_logger:
                self.progress_logger.log_step(progress)

    def stop(self, force=False):
        pass


def snapshot(root):
    out = {}
    for dirpath, dirnames, filenames in os.walk(root):
        for n in dirnames + filenames:
            p = os.path.join(dirpath, n)
            try:
                s = os.lstat(p)
            except OSError:
                continue
            if stat.S_ISDIR(s.st_mode):
                out[p] = ('d',)
            elif stat.S_ISLNK(s.st_mode):
                out[p] = ('l', os.readlink(p), s.st_mtime_ns)
            else:
                out[p] = ('f', s.st_size, s.st_mtime_ns)
    return out


def resolve_tiles(case, grid, frame):
    """abstract placements -> [(coord, age)] without duplicates"""
    out, seen = [], set()
    content = case['content_levels']
    for li, place, age in case['tiles']:
        z = content[li % len(content)]
        if z >= grid.levels:
            continue
        gsx, gsy = grid.grid_sizes[z]
        if place[0] == 'u' or (place[0] == 'f' and frame is None):
            x, y = int(place[1] * gsx), int(place[2] * gsy)
        elif place[0] == 'f':
            w, h = frame[2] - frame[0], frame[3] - frame[1]
            cx = frame[0] - 0.25 * w + place[1] * 1.5 * w
            cy = frame[1] - 0.25 * h + place[2] * 1.5 * h
            cx = min(max(cx, grid.bbox[0]), grid.bbox[2])
            cy = min(max(cy, grid.bbox[1]), grid.bbox[3])
            x, y, _ = grid.tile(cx, cy, z)
        else:
            f = frame if frame is not None else list(grid.bbox)
            cx = (f[0], f[2], f[2], f[0])[place[1] % 4]
            cy = (f[1], f[1], f[3], f[3])[place[1] % 4]
            cx = min(max(cx, grid.bbox[0]), grid.bbox[2])
            cy = min(max(cy, grid.bbox[1]), grid.bbox[3])
            tx, ty, _ = grid.tile(cx, cy, z)
            x, y = tx + place[2], ty + place[3]
        x = min(max(x, 0), gsx - 1)
        y = min(max(y, 0), gsy - 1)
        if (x, y, z) in seen:
            continue
        seen.add((x, y, z))
        out.append(((x, y, z), age))
    return out


def store(cache, backend, coord, ts, color=(10, 200, 30)):
    from mapproxy.cache.tile import Tile
    from mapproxy.image import ImageSource
    from mapproxy.image.opts import ImageOptions
    tile = Tile(coord, ImageSource(io.BytesIO(_png(color)), image_opts=ImageOptions(format='image/png')))
    if backend == 'sqlite' and ts is not None:
        import mapproxy.cache.mbtiles as mb
        orig = mb.time
        mb.time = _TimeShim(ts)
        try:
            cache.store_tile(tile)
        finally:
            mb.time = orig
    else:
        cache.store_tile(tile)
    if backend.startswith('file:'):
        loc = cache.tile_location(Tile(coord))
        if not os.path.lexists(loc):
            raise core.HarnessError('stored tile %r not found at %s' % (coord, loc))
        if ts is not None:
            os.utime(loc, (ts, ts), follow_symlinks=False)
            ts = os.lstat(loc).st_mtime
        return loc, ts
    return None, ts


def present(cache, backend, coord, loc):
    from mapproxy.cache.tile import Tile
    if backend.startswith('file:'):
        return os.path.lexists(loc)
    return bool(cache.is_cached(Tile(coord)))


def main_root(cache, backend):
    if backend == 'mbtiles':
        return cache.mbtile_file
    if backend == 'geopackage':
        return cache.geopackage_file
    return cache.cache_dir


def under(path, root, file_root=False):
    """is `path` part of the storage rooted at `root` (a directory, or a database file with its -wal/-shm/... companions)"""
    if file_root:
        return path == root or path.startswith(root + '-') or path.startswith(root + '.')
    return path == root or path.startswith(root.rstrip(os.sep) + os.sep)


def run_once(case, root, st_, cov_mode, pool='inline'):
    """One execution of the scenario in a fresh directory `root`.
    cov_mode: 'as-is' | 'covering' (full-extent scenario re-run with an all-covering coverage).
    Returns dict(verdicts=[(signature, message)], removed=set(coords), classes=[...], info=...)."""
    import yaml
    from mapproxy.config import local_base_config
    from mapproxy.seed.config import load_seed_tasks_conf, SeedConfigurationError
    from mapproxy.seed import cleanup as cleanup_mod
    from mapproxy.seed.util import ProgressLog
    from mapproxy.grid import GridError

    backend = case['backend']
    os.makedirs(root)
    info = write_configs(case, root)
    conf = _load_configuration(info['mp_file'])
    res = {'verdicts': [], 'removed': set(), 'band': set(), 'classes': [], 'refused': False, 'aborted': None}
    with local_base_config(conf.base_config):
        grid_by_name = {}
        for tg, extent, mgr in conf.caches['main'].caches():
            grid_by_name[tg.name] = mgr
        mgr = grid_by_name['g1']
        grid = mgr.grid
        cache = mgr.cache
        n = grid.levels
        meta = mgr.meta_grid.meta_size if mgr.meta_grid else (1, 1)
        if tuple(meta) != tuple(case['meta']) and tuple(case['meta']) != (1, 1):
            raise core.HarnessError('meta size %r not applied (%r)' % (case['meta'], meta))

        # ---- coverage
        geom, frame = None, None
        task = info['task']
        seed = {'cleanups': {'c': task}}
        if case['cov'] is not None and cov_mode == 'as-is':
            frame = coverage_frame(grid, case['cov'])
            confs, names, geom = write_coverages(case, grid, root, frame)
            seed['coverages'] = confs
            task['coverages'] = names
        elif cov_mode == 'covering':
            import shapely.geometry as sg
            b = grid.bbox
            seed['coverages'] = {'all': {'bbox': [float(v) for v in b], 'srs': grid.srs.srs_code}}
            task['coverages'] = ['all']
            geom = sg.box(*b)
        lv = case['levels']
        if lv is not None and lv[0] == 'res_range':
            d = {}
            if lv[1] is not None:
                d['from'] = float(grid.resolutions[min(lv[1], n - 1)])
            if lv[2] is not None:
                d['to'] = float(grid.resolutions[min(lv[2], n - 1)])
            if d:
                task['resolutions'] = d
        sel = set(expected_levels(case, n))
        seed_file = os.path.join(root, 'seed.yaml')
        with open(seed_file, 'w') as f:
            yaml.dump(seed, f, Dumper=_dumper())

        # ---- contents
        T, slack, remove_all = info['T'], info['T_slack'], info['remove_all']
        has_ts = backend in TIMESTAMP_BACKENDS
        now = time.time()
        model = {}
        resolved = resolve_tiles(case, grid, frame)
        faults = list(case.get('faults') or []) if (backend.startswith('file:') and pool == 'inline') else []
        victim_coords = {}
        if faults and resolved:
            have = set(c for c, _ in resolved)
            for idx, op in faults:
                vc = resolved[idx % len(resolved)][0]
                victim_coords.setdefault(vc, op)
            # expired neighbours in the same column / row, so that the victim shares its directory with other
            # tiles the cleanup still has to deal with after the race
            for (x, y, z) in list(victim_coords):
                gsx, gsy = grid.grid_sizes[z]
                for dx, dy in ((0, 1), (0, -1), (0, 2), (0, -2), (1, 0), (-1, 0), (2, 0)):
                    c = (x + dx, y + dy, z)
                    if 0 <= c[0] < gsx and 0 <= c[1] < gsy and c not in have:
                        have.add(c)
                        # stored before and after the victim: directory listing order depends on creation
                        # order on some file systems (tmpfs lists the newest entry first)
                        if dx + dy > 0:
                            resolved.append((c, -3600.0))
                        else:
                            resolved.insert(0, (c, -3600.0))
        for coord, age in resolved:
            ts = None
            if has_ts:
                off = age
                if slack:
                    off = (1 if age > 0 else -1) * max(abs(age), slack + 300.0)
                    if age == 0:
                        off = -(slack + 300.0)
                base = T if T is not None else now - 86400.0
                ts = base + off
            color = (10, 200, 30) if (coord[0] + coord[1]) % 2 else (200, 10, 30)
            loc, ts = store(cache, backend, coord, ts, color)
            model[coord] = {'loc': loc, 'ts': ts}
        if hasattr(cache, 'cleanup'):
            cache.cleanup()
        root_main = main_root(cache, backend)
        victims = dict((os.path.normpath(model[c]['loc']), op) for c, op in victim_coords.items())
        vanished = set()

        # ---- bystanders
        by = case['by']
        old = (T if (T is not None and has_ts) else now) - 400 * 86400.0
        protected = []   # (kind, path)
        others = []      # (kind, cache, backend, coord, loc)
        if by.get('sibling'):
            for tg, extent, m2 in conf.caches['main_b'].caches():
                for coord in list(model)[:6]:
                    loc, _ = store(m2.cache, backend, coord, old if has_ts else None)
                    others.append(('sibling-cache', m2.cache, coord, loc))
                if hasattr(m2.cache, 'cleanup'):
                    m2.cache.cleanup()
        if info['two_grids']:
            m2 = grid_by_name['g2']
            for coord in [(0, 0, 0), (1, 0, 1), (0, 0, 1), (2, 1, 2), (3, 1, 3)]:
                if coord[2] < m2.grid.levels and coord[0] < m2.grid.grid_sizes[coord[2]][0] \
                        and coord[1] < m2.grid.grid_sizes[coord[2]][1]:
                    loc, _ = store(m2.cache, backend, coord, old if has_ts else None)
                    others.append(('other-grid', m2.cache, coord, loc))
            if hasattr(m2.cache, 'cleanup'):
                m2.cache.cleanup()

        def plant(kind, path, content=b'keep me'):
            os.makedirs(os.path.dirname(path), exist_ok=True)
            with open(path, 'wb') as f:
                f.write(content)
            os.utime(path, (old, old))
            protected.append((kind, path))
        base_dir = os.path.join(root, 'cache_data')
        is_dir_root = backend not in ('mbtiles', 'geopackage')
        if by.get('files'):
            plant('unrelated-file', os.path.join(base_dir, 'notes.txt'))
            plant('unrelated-file', os.path.join(root, 'unrelated', '00', '000', '000', '000', '000', '000', '000.png'))
            if is_dir_root:
                plant('unrelated-file-in-cache-dir', os.path.join(root_main, 'README.txt'))
        if by.get('locks'):
            lock_dir = conf.caches['main'].lock_dir()
            plant('tile_locks', os.path.join(lock_dir, 'deadbeef-0-0-1.lck'), b'')
        if by.get('single_color') and backend.startswith('file:'):
            plant('single_color_tiles', os.path.join(root_main, 'single_color_tiles', 'ff0000.png'), _png((255, 0, 0)))
        if by.get('decoys') and backend in LEVEL_DIR_LAYOUTS + ('compact1', 'compact2'):
            own = set()
            for c, m in model.items():
                if m['loc']:
                    own.add(os.path.relpath(m['loc'], root_main).split(os.sep)[0])
            fmt = {'file:tc': '%02d', 'file:mp': '%02d', 'file:tms': '%d'}.get(backend, 'L%02d')
            genuine = set(fmt % lv_ for lv_ in range(n))   # names that really are level directories of this cache
            for z in sorted(sel)[:3] + [0]:
                for name in ('%d' % z, '%02d' % z, 'L%02d' % z, '%02d.bak' % z):
                    if backend.startswith('compact') and name == 'L%02d' % z:
                        continue
                    if backend == 'file:arcgis' and name == 'L%02d' % z:
                        continue
                    if backend in ('file:tc', 'file:mp') and name == '%02d' % z:
                        continue
                    if backend == 'file:tms' and name == '%d' % z:
                        continue
                    if name in own or name in genuine:
                        continue
                    plant('decoy-dir', os.path.join(root_main, name, 'x', 'y.dat'))
        if case.get('link_sc') and backend.startswith('file:'):
            scd = os.path.join(root_main, 'single_color_tiles')
            if os.path.isdir(scd):
                for nme in os.listdir(scd):
                    protected.append(('single_color_tiles', os.path.join(scd, nme)))

        before = snapshot(root)

        # ---- the cleanup under test
        exc = None
        try:
            seed_conf = load_seed_tasks_conf(seed_file, conf)
            tasks = seed_conf.cleanups()
        except SeedConfigurationError as e:
            tasks = None
            res['refused'] = True
            res['refused_msg'] = str(e)
        if tasks is not None:
            if len(tasks) != 1:
                raise core.HarnessError('expected one cleanup task, got %d' % len(tasks))
            t0 = tasks[0]
            res['task_levels'] = list(t0.levels)
            res['task_remove_all'] = bool(t0.remove_all)
            res['task_T'] = t0.remove_timestamp
            logger = ProgressLog(out=io.StringIO(), verbose=False, silent=True) if case.get('plog') else None
            orig_pool = cleanup_mod.TileWorkerPool
            import mapproxy.util.fs as fs_mod
            import mapproxy.cache.file as file_mod
            orig_os = (fs_mod.os, file_mod.os)
            if victims:
                fs_mod.os = _RacingOs(orig_os[0], victims, vanished)
                file_mod.os = _RacingOs(orig_os[1], victims, vanished)
            if pool == 'inline':
                cleanup_mod.TileWorkerPool = InlinePool
            try:
                with contextlib.redirect_stdout(io.StringIO()):
                    cleanup_mod.cleanup(tasks, concurrency=case.get('concurrency', 2), dry_run=False,
                                        skip_geoms_for_last_levels=0, verbose=False, progress_logger=logger)
            except GridError as e:
                res['aborted'] = 'GridError'
                exc = e
            except Exception as e:     # judged below through what it left behind
                exc = e
            finally:
                cleanup_mod.TileWorkerPool = orig_pool
                fs_mod.os, file_mod.os = orig_os
                if pool != 'inline':
                    # TileWalker() can raise after the workers were started (e.g. empty level list):
                    # never leave worker processes behind
                    import multiprocessing
                    for p in multiprocessing.active_children():
                        p.terminate()
                        p.join(10)
                try:
                    mgr.cleanup()
                except Exception:
                    pass
        after = snapshot(root)

        # ---- oracle
        full = geom is None
        shape = 'full' if full else 'cov'
        tilewalk = (not full) or backend == 'file:reverse_tms'
        res['classes'] += ['backend:' + backend, 'shape:' + shape, 'grid:' + case['grid']['kind']]
        prefix = 'C12/%s/%s/' % (backend, 'full' if cov_mode != 'covering' and case['cov'] is None else 'cov')
        V = res['verdicts']

        if res['refused']:
            res['classes'].append('config:refused')
            if has_ts or info['remove_all'] or case['mode'] in ('all', 'all+before'):
                V.append((prefix + 'config-refused', 'cleanup configuration refused: %s' % res.get('refused_msg')))
            # refused is the specified behaviour for remove_before on backends without timestamps
            for coord, m in model.items():
                if not present(cache, backend, coord, m['loc']):
                    V.append((prefix + 'refused-but-removed', 'tile %r vanished although the task was refused' % (coord,)))
                    break
            _check_bystanders(V, prefix, before, after, root, root_main, protected, others, backend)
            if hasattr(cache, 'cleanup'):
                cache.cleanup()
            return res

        if not has_ts and not res['task_remove_all']:
            # a backend that cannot tell tile ages produced a task that compares ages (one root cause)
            res['classes'].append('config:remove_before-without-timestamps')
            accepted_sig = 'C12/%s/remove_before-accepted-without-timestamps' % backend
        else:
            accepted_sig = None

        if res['task_levels'] != sorted(sel):
            V.append((prefix + 'level-selection', 'task levels %r, configured selection means %r'
                      % (res['task_levels'], sorted(sel))))

        regular = is_regular(case['grid'])
        gbbox = geom.bounds if geom is not None else tuple(grid.bbox)
        if full and tilewalk:
            import shapely.geometry as sg
            geom_eff = sg.box(*grid.bbox)
        else:
            geom_eff = geom
        n_must_remove = n_must_keep = 0
        sel_has = unsel_has = False
        kept_expired, removed_wrong = [], []
        for coord, m in sorted(model.items()):
            z = coord[2]
            in_sel = z in sel
            sel_has |= in_sel
            unsel_has |= not in_sel
            if remove_all:
                age = 'old'
            elif has_ts:
                off = m['ts'] - T
                lim = 1.0 + slack
                age = 'old' if off < -lim else ('new' if off > lim else 'band')
                if backend == 'sqlite' and age != 'band':
                    # sqlite keeps last_modified as a local-time string: around a DST change local strings are not
                    # monotonic / not unique, so their order can differ from the order of the instants - either way
                    ls_t, ls_T = _local_string(m['ts']), _local_string(T)
                    back = time.mktime(time.strptime(ls_t, '%Y-%m-%d %H:%M:%S'))
                    if ((m['ts'] < T) != (ls_t < ls_T)) or back != m['ts'] // 1:
                        age = 'band'
                        res['classes'].append('tile:band-dst-local-string')
            else:
                age = 'old' if case.get('t_future') else 'new'
            if geom_eff is None:
                geo = 'in'
            else:
                geo = geo_class(grid, meta, coord, geom_eff, gbbox, regular)
                if full and geo == 'out':
                    geo = 'touch'
            here = present(cache, backend, coord, m['loc'])
            if not here:
                res['removed'].add(coord)
            if m['loc'] and os.path.normpath(m['loc']) in vanished:
                # taken away by the concurrent actor: gone either way, not the cleanup's doing
                res['band'].add(coord)
                res['classes'].append('tile:raced-away-at-' + victims[os.path.normpath(m['loc'])])
                continue
            if age == 'band' or geo == 'touch':
                res['band'].add(coord)
                res['classes'].append('tile:band-' + ('time' if age == 'band' else 'touch'))
            must_remove = in_sel and age == 'old' and geo == 'in'
            must_keep = (not in_sel) or age == 'new' or geo == 'out'
            if must_remove:
                n_must_remove += 1
                if here:
                    kept_expired.append((coord, m['ts']))
            elif must_keep:
                n_must_keep += 1
                if not here:
                    why = 'other-level' if not in_sel else ('newer' if age == 'new' else 'outside-coverage')
                    removed_wrong.append((coord, why, m['ts']))
        res['n_must_remove'], res['n_must_keep'] = n_must_remove, n_must_keep
        miss = []
        if not sel_has:
            miss.append('no-tile-in-selected-level')
        if not unsel_has:
            miss.append('no-tile-in-unselected-level')
        if not n_must_remove:
            miss.append('nothing-to-remove')
        if not n_must_keep:
            miss.append('nothing-to-keep')
        if not remove_all and has_ts and not any((m['ts'] - T) > 1 + slack for c, m in model.items() if c[2] in sel):
            miss.append('no-newer-tile-in-selected-level')
        res['nontrivial'] = not miss
        res['classes'] += ['trivial:' + w for w in miss]

        abort = ''
        if exc is not None and res['aborted'] is None:
            abort = 'abort-%s' % type(exc).__name__
            res['classes'].append('cleanup-raised:' + type(exc).__name__)
        if res['aborted'] == 'GridError':
            res['classes'].append('cleanup-aborted:GridError')
            kept_expired = []
        if kept_expired:
            coord, ts = kept_expired[0]
            what = abort or 'kept-expired'
            if not abort and any(os.path.dirname(v) == os.path.dirname(os.path.normpath(model[coord]['loc'] or ''))
                                 for v in vanished):
                what = 'kept-expired-after-raced-file'
            if not abort and full and backend in LEVEL_DIR_LAYOUTS:
                # root-cause diagnosis: does the directory the walk is pointed at contain the tile at all?
                try:
                    lvl_dir = cache.level_location(coord[2])
                    if not under(model[coord]['loc'], lvl_dir):
                        what = 'level_location-mismatch'
                        res['diag'] = 'level_location(%d) = %s but the tile is stored at %s' % (
                            coord[2], os.path.relpath(lvl_dir, root), os.path.relpath(model[coord]['loc'], root))
                except Exception:
                    pass
            sig = accepted_sig or (prefix + what)
            V.append((sig, 'tile %r (mtime %r, T %r, remove_all %r) of selected level survives the cleanup%s; '
                      '%d such tiles%s' % (coord, ts, T, remove_all,
                                           (' which raised %r' % (exc,)) if exc is not None else '', len(kept_expired),
                                           ('; ' + res['diag']) if res.get('diag') else '')))
        for coord, why, ts in removed_wrong[:1]:
            sig = accepted_sig or (prefix + 'removed-' + why)
            V.append((sig, 'tile %r (mtime %r, T %r, selected levels %r) was removed: %s; %d such tiles'
                      % (coord, ts, T, sorted(sel), why, len(removed_wrong))))
        if vanished:
            res['classes'].append('fault:file-vanished-under-' + ('tilewalk' if tilewalk else 'dirwalk'))
        if exc is not None and res['aborted'] is None and vanished and not kept_expired:
            V.append((prefix + 'raced-file-abort-' + type(exc).__name__,
                      'a tile file that vanished during the cleanup made it raise %r' % (exc,)))
        elif exc is not None and res['aborted'] is None and not kept_expired:
            res['classes'].append('raised-without-obligation')
            st_.notes['cleanup raised %s with nothing left to remove' % type(exc).__name__] += 1
        _check_bystanders(V, prefix, before, after, root, root_main, protected, others, backend)
        if hasattr(cache, 'cleanup'):
            cache.cleanup()
    return res


def _check_bystanders(V, prefix, before, after, root, root_main, protected, others, backend):
    from mapproxy.cache.tile import Tile
    for kind, path in protected:
        if before.get(path) != after.get(path):
            V.append((prefix + 'bystander-' + kind, '%s %s: %r -> %r' % (kind, os.path.relpath(path, root),
                                                                       before.get(path), after.get(path))))
            return
    for kind, c2, coord, loc in others:
        ok = os.path.lexists(loc) if loc else bool(c2.is_cached(Tile(coord)))
        if hasattr(c2, 'cleanup'):
            c2.cleanup()
        if not ok:
            V.append((prefix + 'bystander-' + kind, 'tile %r of the %s vanished' % (coord, kind)))
            return
    # generic: nothing outside the storage of the cleaned cache may vanish or change
    for path, meta in before.items():
        if under(path, root_main, file_root=backend in ('mbtiles', 'geopackage')):
            continue
        if path.endswith(('-wal', '-shm', '-journal', '.lck')):
            continue
        a = after.get(path)
        if a is None or (meta[0] != 'd' and a != meta):
            V.append((prefix + 'bystander-outside-cache', '%s: %r -> %r' % (os.path.relpath(path, root), meta, a)))
            return


# ------------------------------------------------------------------------------------------------
# check

def excluded_reason(case, open_sigs):
    b = case['backend']
    if b == 'file:quadkey' and case['cov'] is None and SIG_QUADKEY in open_sigs:
        return 'quadkey layout, full-extent cleanup (open finding)'
    if b == 'file:tms' and case['cov'] is None and SIG_TMS in open_sigs:
        return 'tms layout, full-extent cleanup (open finding)'
    if b == 'geopackage_levels' and case['mode'] in ('before', 'default') and SIG_GPKG_LEVELS in open_sigs:
        return 'geopackage levels, remove_before (open finding)'
    return None


_OPEN = None


def check_case(case, st_, base=None, pool='inline', honour_exclusions=True):
    global _OPEN
    _quiet_logging()
    if _OPEN is None:
        # VERIF_IGNORE_OPEN_FINDINGS=1: search without the exclusions (used to verify proposed fixes on a
        # patched scratch copy before the findings are marked fixed)
        _OPEN = set() if os.environ.get('VERIF_IGNORE_OPEN_FINDINGS') else core.open_signatures(PROPERTY)
    if honour_exclusions:
        why = excluded_reason(case, _OPEN)
        if why:
            st_.excluded[why] += 1
            return None
    root = _scratch('c12-', base)
    prev_tz = _set_tz(case.get('tz') or 'UTC')
    try:
        r = run_once(case, os.path.join(root, 'a'), st_, 'as-is', pool)
        verdicts = list(r['verdicts'])
        classes = list(r['classes'])
        if case['cov'] is None and case.get('twin') and not r['refused']:
            r2 = run_once(case, os.path.join(root, 'b'), st_, 'covering', pool)
            classes.append('twin:compared')
            verdicts += r2['verdicts']
            band = r['band'] | r2['band']
            diff = (r['removed'] ^ r2['removed'])
            if diff - band and not verdicts:
                verdicts.append(('C12/%s/strategies-disagree' % case['backend'],
                                 'full-extent strategy and tile walk differ on %r' % sorted(diff - band)[:3]))
            if diff & band:
                st_.notes['strategies differ inside the accepted bands'] += 1
    finally:
        _restore_tz(prev_tz)
        shutil.rmtree(root, ignore_errors=True)
    classes.append('tz:' + (case.get('tz') or 'UTC'))
    classes.append('mode:' + case['mode'] + ('/' + case['tkind'] if 'before' in case['mode'] else ''))
    classes.append('levels:' + (case['levels'][0] if case['levels'] else 'all'))
    if case['cov'] is not None:
        classes.append('cov:' + case['cov']['type'] + ('/4326' if case['cov']['srs'] == '4326' and
                                                      case['cov']['type'] == 'bbox' and
                                                      case['grid']['kind'] in ('webmerc', 'merc_sw') else ''))
    for k, v in sorted(case['by'].items()):
        if v:
            classes.append('bystander:' + k)
    if pool != 'inline':
        classes.append('pool:multiprocessing')
    st_.case(key=case, nontrivial=bool(r.get('nontrivial')), classes=sorted(set(classes)),
             sample={'backend': case['backend'], 'grid': case['grid'], 'mode': case['mode'],
                     'levels': case['levels'], 'cov': case['cov'] and case['cov']['type'],
                     'must_remove': r.get('n_must_remove'), 'must_keep': r.get('n_must_keep')})
    if verdicts:
        sig, msg = verdicts[0]
        return core.Violation(sig, msg, case)
    return None


def _check_all(case, st_):
    """like check_case but returns every verdict (replay)"""
    return check_case(case, st_, honour_exclusions=False)


def search(strategy, check, st_, n, seed, max_signatures=4):
    """core.hyp_search, one root cause at a time: after a (shrunk) failure the search is repeated with that
    signature ignored, but with a quarter of the budget - a tree with a defect must not cost four full runs."""
    ignored = set()
    budget = n
    for i in range(max_signatures):
        seen = len(st_.violations)

        def chk(case, s):
            v = check(case, s)
            return None if (v is None or v.signature in ignored) else v
        core.hyp_search(strategy, chk, st_, max_examples=budget, seed=seed + i, max_signatures=1)
        new = st_.violations[seen:]
        if not new:
            break
        ignored.update(v.signature for v in new)
        budget = max(40, n // 4)
    return st_


def random_shard(shard, nshards, seed, tier):
    st_ = core.Stats()
    n = (16000 if tier == 'quick' else 400000) // nshards
    n = max(10, int(n * float(os.environ.get('VERIF_C12_SCALE', '1'))))   # reduced runs while developing
    base = _scratch('c12-shard-')
    try:
        search(cases(), lambda c, s: check_case(c, s, base=base), st_, n, seed)
    finally:
        shutil.rmtree(base, ignore_errors=True)
    return st_


def run(tier, seed, stats):
    stats.merge(core.parallel(random_shard, 16, seed, tier))
    # a few tile-walk scenarios through the real multiprocessing worker pool (main process only)
    st_ = core.Stats()
    base = _scratch('c12-main-')
    try:
        core.hyp_search(cases(only_tilewalk=True), lambda c, s: check_case(c, s, base=base, pool='real'), st_,
                        max_examples=12 if tier == 'quick' else 150, seed=core.derive_seed(seed, 'realpool'),
                        max_signatures=2)
    finally:
        shutil.rmtree(base, ignore_errors=True)
    stats.merge(st_)


def replay(case, stats):
    v = _check_all(case, stats)
    return [v] if v else []
