"""C20 - Conditional requests are honoured soundly.

A Hypothesis state machine drives one MapProxy WSGI application (file and sqlite caches, with and without
meta tiles, WMS and tile sources, all behind `on_error: {500: {response: '#ff0000', cache: false}}`) through
generated histories of

  * GET of a tile through TMS / WMTS-KVP / WMTS-REST / KML / WMS-C with generated If-None-Match
    (current / historical / ETag of a creating response / garbage / quoted / list) and If-Modified-Since
    (current, older, newer in IMF-fixdate, RFC 850 and asctime form, malformed, pre-1970) headers,
  * rewrites of the tile (store through the cache object with new content of the same or a different size, in
    the same or a later second; removal; expiry through `refresh_before: {mtime: ...}` followed by a request
    that lets MapProxy refresh the tile from an upstream that meanwhile serves other content),
  * advancing a virtual clock, switching the upstream between content versions and HTTP 500.

After every step the harness reads the tile *as stored* directly from the backend (file bytes + lstat /
own sqlite3 query), so that "rewritten", "served from the cache" and "the tile as currently stored" are
observations, not assumptions.  See DESIGN.md section 21.
"""
import calendar
import hashlib
import io
import os
import re
import shutil
import sqlite3
import tempfile
import time as _real_time

from hypothesis import strategies as st
from hypothesis.stateful import RuleBasedStateMachine, initialize, rule

from .. import core

PROPERTY = 'C20'
LEVEL = 'exploration'
RULE = ('Hypothesis RuleBasedStateMachine histories (30 steps, thorough 50) against one WSGI application with nine '
        'layers (file/sqlite cache x meta-tile/single-tile creation from a WMS source, file cache from a tile source, '
        'file caches with link_single_color_images symlink (single and meta creation) and hardlink, file cache from a '
        'tile source with bulk_meta_tiles + meta_size [2,2]), '
        'four tiles per layer, a generated server time zone (UTC, 4 west, 3 east) and season per history, a virtual clock (time.time of the cache modules, file mtimes set by the harness, '
        'refresh_before marker files): rules = GET through TMS / WMTS-KVP / WMTS-REST / KML / WMS-C with generated '
        'If-None-Match x If-Modified-Since (alone and together), direct rewrite through the cache object (ground '
        'content of varying size / four solid colours of equal size, which become links to shared single-colour files on '
        'the link caches and are returned to after clock advances), removal, expiry + refresh through MapProxy, clock '
        'advance by 0.2 s .. 1 day (or none: same-second rewrites), upstream content switch and upstream HTTP 500 '
        'mapped to an uncached fill image. A history is non-trivial when an observed rewrite of a tile (stored bytes '
        'or timestamp changed) lies between two conditional requests for that tile; distinct = distinct step lists.')
ASSUMPTIONS = [
    'server time zone (TZ of the process, time.tzset before the first request of a history) drawn per history from UTC, '
    'four zones west and three east of it, with and without DST, in a June or a January week >= 5 weeks away from any '
    'DST switch (local <-> epoch unambiguous); all date arithmetic of the oracle is UTC (calendar.timegm / tz database), '
    'independent of the process TZ; backends with timestamps only (file, sqlite); one process, no concurrent requests',
    'virtual clock: mapproxy.cache.base/mbtiles and mapproxy.service.tile see a harness clock that advances 1 ms per '
    'reading; files written by a step get the harness clock as mtime right after the step (the kernel clock cannot be '
    'virtualised), expiry uses refresh_before.mtime marker files touched with the harness clock',
    '"the tile as currently stored" = bytes and timestamp read from the backend by the harness after the step; its '
    'current validators are those of a 200 response served from the cache (no upstream call, store unchanged) in the '
    'same store generation - learned from an earlier response or from an unconditional probe GET sent right after a 304',
    'the response that creates or refreshes a tile is not held to the "identical validators" clause (the statement '
    'starts "once a tile is in the cache"); differences are only counted. Every 304 is held to the soundness clause',
    'a 304 is accepted when any presented validator matches the stored tile under a lenient reading: ETag equal '
    'verbatim, inside a comma list, with quotes / W/ removed, or "*"; or an HTTP-date (IMF-fixdate, RFC 850 with '
    'years 2000-2068, asctime) >= the current Last-Modified. Strings without a date meaning, or whose only meaning is '
    'a date far before the tile, never match. RFC 7232 precedence (ETag over date) is only counted',
    'uncached fill tile = 200 response of a request during which the synthetic upstream answered 500 and whose body '
    'decodes to the configured fill colour; it must carry no-store (a public/max-age directive next to no-store is '
    'only counted, because no-store wins in RFC 7234)',
    'a cache-served 200 without ETag or Last-Modified counts as a violation (the statement names both validators); '
    'a 304 served from the cache must repeat the current ETag (RFC 7232 4.1) and have an empty body',
    'a 304 that rests on ETag equality alone is rejected when the same ETag string was issued earlier for this tile '
    'while it was stored with a different timestamp or size (validators derive from timestamp and size; rewrites that '
    'change neither - same second and same size on the second-granular sqlite backend - are outside the clause)',
    'a 304 that rests on If-Modified-Since alone is rejected when the harness saw the stored bytes of that tile change '
    'in a step that began (harness clock, whole seconds) after the presented date - whatever timestamp the cache reports '
    'for the tile now (e.g. the old mtime of a shared single-colour file behind a symbolic link). This clause applies to '
    'caches that report per-tile timestamps, i.e. not to link_single_color_images: hardlink: doc/configuration.rst states '
    'that "all the linked files will have the same metadata, in particular the modification time", so the tile as stored '
    'reports the first such tile\'s date and a presented date >= that Last-Modified legitimately matches (DESIGN 21); '
    'those 304s are judged by the ordinary date clause and counted in class 304:hardlink-date-after-shared-mtime-but-before-rewrite',
    'the stored tile is read back as FileCache reports it: bytes through the path, size and mtime of the directory entry '
    '(lstat: a symbolic link has its own, a hard link shares the single-colour file\'s); new inodes get the harness clock '
    'as mtime, a new hard link to an old inode keeps the old mtime as on a real file system',
    'findings listed as open in known_findings.d/C20.json are excluded by construction: the generator strips the '
    'conditional headers / skips the request for exactly those situations (counted in excluded_by_construction)',
]

SIG_FILL_META = 'C20/fill-without-no-store/meta-tile-flag-lost'
SIG_FILL_WMTS_KML = 'C20/fill-without-no-store/wmts-kml-ignore-cacheable'
SIG_PRE1970 = 'C20/304-unsound/ims-pre1970'
SIG_WMSC_FILL_304 = 'C20/304-unsound/uncached-fill-tile/wmsc'
SIG_LINK_CREATE = 'C20/304-unsound/rewritten-by-this-request/linked-single-color'
SIG_REWRITE_META = 'C20/304-unsound/rewritten-by-this-request/meta'
SIG_REWRITE_SINGLE = 'C20/304-unsound/rewritten-by-this-request/single'

# ------------------------------------------------------------------------------------------------
# fixed world layout

GRID_BBOX = (0.0, 0.0, 1024000.0, 1024000.0)
GRID_RES = [4000.0, 2000.0, 1000.0, 500.0]
TILE_PX = 256
# internal tile coordinates (x, y counted from the top, level); (1,1,2) and (0,1,2) share a 2x2 meta tile
TILES = [(1, 1, 2), (0, 1, 2), (2, 3, 2), (5, 3, 3)]
LAYERS = {
    # name: (cache type, creation path, source)
    'fm': ('file', 'meta', 'wms'),
    'fs': ('file', 'single', 'wms'),
    'sm': ('sqlite', 'meta', 'wms'),
    'ss': ('sqlite', 'single', 'wms'),
    'ft': ('file', 'single', 'tile'),
    # single-colour tiles stored as links to a shared single_color_tiles/<rrggbb>.png
    'fl': ('file', 'single', 'wms'),
    'fk': ('file', 'meta', 'wms'),
    'fh': ('file', 'single', 'wms'),
    # tile source fetched tile by tile for a whole 2x2 meta tile (bulk_meta_tiles)
    'fb': ('file', 'bulk', 'tile'),
}
LINK_MODE = {'fl': 'symlink', 'fk': 'symlink', 'fh': 'hardlink'}
LAYER_NAMES = sorted(LAYERS)
SERVICES = ['tms', 'wmts-kvp', 'wmts-rest', 'kml', 'wmsc']
FILL_RGB = (255, 0, 0)
SOLID_CANDIDATES = [(60 + i, 120 + (i * 7) % 40, 180 - (i * 3) % 50) for i in range(40)]
CLOCK_BASE = 1750000000.0
# server time zone (process TZ of the code under test) and season of the virtual clock are generated per history; the
# clock stays >= 5 weeks away from every DST transition of these zones, so local <-> epoch conversion is unambiguous
ZONES = ['UTC', 'America/New_York', 'America/Los_Angeles', 'Pacific/Honolulu', 'America/Sao_Paulo', 'Europe/Berlin',
         'Asia/Kolkata', 'Pacific/Auckland']
CLOCK_BASES = [CLOCK_BASE, 1736953600.0]      # 2025-06-15 and 2025-01-15 15:06:40 UTC
ADVANCES = [0.2, 1.0, 2.5, 3600.0, 86400.0]
DATE_DELTAS = [1, 2, 3600, 86400, 315360000]
NONE_ETAG = hashlib.md5(b'NoneNone').hexdigest()
GARBAGE_ETAGS = ['abc', '0' * 32, NONE_ETAG, '""', 'W/"abc"', 'None', 'd41d8cd98f00b204e9800998ecf8427e']
MALFORMED_DATES = ['', 'garbage', 'Mon, 00 Foo 0000 00:00:00 GMT', '0', '-1', 'Thu, 01 Jan 1970',
                   '1999-12-31T23:59:59Z', 'Fri, 31 Dec 1999 25:61:61 GMT', '31/12/1999',
                   'Fri, 31 Dec 1999 23:59:59 GMT garbage', 'Fri, 31 Dec 1999 23:59:59 +0100']
PRE1970_DATES = ['Wed, 31 Dec 1969 23:59:59 GMT', 'Sun, 01 Jan 1950 00:00:00 GMT', 'Mon, 01 Jan 1900 00:00:00 GMT',
                 'Wed Dec 31 23:59:59 1969']

DAY_ABBR = ['Mon', 'Tue', 'Wed', 'Thu', 'Fri', 'Sat', 'Sun']
DAY_FULL = ['Monday', 'Tuesday', 'Wednesday', 'Thursday', 'Friday', 'Saturday', 'Sunday']
MONTHS = ['Jan', 'Feb', 'Mar', 'Apr', 'May', 'Jun', 'Jul', 'Aug', 'Sep', 'Oct', 'Nov', 'Dec']


def format_date(epoch, fmt):
    t = _real_time.gmtime(int(epoch))
    if fmt == 'rfc850':
        return '%s, %02d-%s-%02d %02d:%02d:%02d GMT' % (DAY_FULL[t.tm_wday], t.tm_mday, MONTHS[t.tm_mon - 1],
                                                          t.tm_year % 100, t.tm_hour, t.tm_min, t.tm_sec)
    if fmt == 'asctime':
        return '%s %s %2d %02d:%02d:%02d %04d' % (DAY_ABBR[t.tm_wday], MONTHS[t.tm_mon - 1], t.tm_mday,
                                                   t.tm_hour, t.tm_min, t.tm_sec, t.tm_year)
    return '%s, %02d %s %04d %02d:%02d:%02d GMT' % (DAY_ABBR[t.tm_wday], t.tm_mday, MONTHS[t.tm_mon - 1],
                                                     t.tm_year, t.tm_hour, t.tm_min, t.tm_sec)


_IMF = re.compile(r'^(Mon|Tue|Wed|Thu|Fri|Sat|Sun), (\d\d) (\w{3}) (\d{4}) (\d\d):(\d\d):(\d\d) GMT$')
_RFC850 = re.compile(r'^(Monday|Tuesday|Wednesday|Thursday|Friday|Saturday|Sunday), (\d\d)-(\w{3})-(\d\d) '
                     r'(\d\d):(\d\d):(\d\d) GMT$')
_ASC = re.compile(r'^(Mon|Tue|Wed|Thu|Fri|Sat|Sun) (\w{3}) ([ \d]\d) (\d\d):(\d\d):(\d\d) (\d{4})$')


def strict_http_date(value):
    """RFC 7231 HTTP-date -> epoch seconds, None for anything else (independent of mapproxy.util.times)."""
    if not isinstance(value, str):
        return None
    m = _IMF.match(value)
    if m:
        day, mon, year, hh, mm, ss = m.group(2), m.group(3), int(m.group(4)), m.group(5), m.group(6), m.group(7)
    else:
        m = _RFC850.match(value)
        if m:
            day, mon, yy, hh, mm, ss = m.group(2), m.group(3), int(m.group(4)), m.group(5), m.group(6), m.group(7)
            year = 2000 + yy if yy <= 68 else 1900 + yy
        else:
            m = _ASC.match(value)
            if not m:
                return None
            mon, day, hh, mm, ss, year = m.group(2), m.group(3), m.group(4), m.group(5), m.group(6), int(m.group(7))
    if mon not in MONTHS:
        return None
    day, hh, mm, ss = int(day), int(hh), int(mm), int(ss)
    if not (1 <= day <= 31 and hh < 24 and mm < 60 and ss <= 60):
        return None
    return calendar.timegm((year, MONTHS.index(mon) + 1, day, hh, mm, ss, 0, 0, 0))


def etag_tokens(value):
    out = set()
    for tok in value.split(','):
        tok = tok.strip()
        out.add(tok)
        if tok.startswith('W/'):
            tok = tok[2:]
        out.add(tok.strip('"'))
    return out


def etag_matches(presented, current):
    """lenient: may a reasonable server regard the presented If-None-Match as matching `current`?"""
    if presented is None or current is None:
        return False
    if presented == current:
        return True
    toks = etag_tokens(presented)
    return current in toks or current.strip('"') in toks or '*' in toks


class Clock(object):
    def __init__(self):
        self.now = CLOCK_BASE

    def tick(self):
        self.now += 0.001
        return self.now


class VirtualTime(object):
    """stands in for the `time` module inside the patched MapProxy modules"""

    def __init__(self, clock):
        self._clock = clock

    def time(self):
        return self._clock.tick()

    def __getattr__(self, name):
        return getattr(_real_time, name)


class Resp(object):
    def __init__(self, status, headers, body):
        self.status = status
        self.headers = headers
        self.body = body

    def all(self, name):
        name = name.lower()
        return [v for k, v in self.headers if k.lower() == name]

    def get(self, name):
        vals = self.all(name)
        return vals[0] if vals else None

    def cache_directives(self):
        out = []
        for v in self.all('cache-control'):
            out.extend(d.strip().lower() for d in v.split(',') if d.strip())
        return out


def wsgi_get(app, path, query, headers):
    from wsgiref.util import setup_testing_defaults
    env = {'REQUEST_METHOD': 'GET', 'PATH_INFO': path, 'QUERY_STRING': query, 'SCRIPT_NAME': ''}
    setup_testing_defaults(env)
    env['wsgi.errors'] = io.StringIO()
    for k, v in headers:
        env['HTTP_' + k.upper().replace('-', '_')] = v
    out = {}

    def start_response(status, hdrs, exc_info=None):
        out['status'] = status
        out['headers'] = list(hdrs)

    it = app(env, start_response)
    try:
        body = b''.join(it)
    finally:
        if hasattr(it, 'close'):
            it.close()
    return Resp(int(out['status'].split()[0]), out['headers'], body)


def tile_bbox(coord):
    x, y, z = coord
    span = GRID_RES[z] * TILE_PX
    x0 = GRID_BBOX[0] + x * span
    y1 = GRID_BBOX[3] - y * span
    return (x0, y1 - span, x0 + span, y1)


def rows_of(z):
    return int(round((GRID_BBOX[3] - GRID_BBOX[1]) / (GRID_RES[z] * TILE_PX)))


def request_for(layer, coord, svc):
    """path, query of the tile in each service's own addressing (grid origin nw)"""
    x, y, z = coord
    if svc == 'tms':
        return '/tms/1.0.0/%s/EPSG3857/%d/%d/%d.png' % (layer, z, x, rows_of(z) - 1 - y), ''
    if svc == 'kml':
        return '/kml/%s/EPSG3857/%d/%d/%d.png' % (layer, z, x, rows_of(z) - 1 - y), ''
    if svc == 'wmts-rest':
        return '/wmts/%s/g/%d/%d/%d.png' % (layer, z, x, y), ''
    if svc == 'wmts-kvp':
        return '/service', ('SERVICE=WMTS&REQUEST=GetTile&VERSION=1.0.0&LAYER=%s&STYLE=&TILEMATRIXSET=g&TILEMATRIX=%d'
                            '&TILEROW=%d&TILECOL=%d&FORMAT=image/png' % (layer, z, y, x))
    if svc == 'wmsc':
        b = tile_bbox(coord)
        return '/service', ('SERVICE=WMS&REQUEST=GetMap&VERSION=1.1.1&LAYERS=%s&STYLES=&SRS=EPSG:3857&BBOX=%r,%r,%r,%r'
                            '&WIDTH=%d&HEIGHT=%d&FORMAT=image/png&TILED=true' % ((layer,) + b + (TILE_PX, TILE_PX)))
    raise AssertionError(svc)


def svc_family(svc):
    return 'wmts' if svc.startswith('wmts') else svc


def make_conf(base):
    def cache(name):
        ctype, path, source = LAYERS[name]
        c = {'grids': ['g'], 'sources': ['up_wms' if source == 'wms' else 'up_tile'], 'cache': {'type': ctype},
             'refresh_before': {'mtime': os.path.join(base, 'marker_' + name)}}
        if source == 'wms':
            c['meta_size'] = [2, 2] if path == 'meta' else [1, 1]
            c['meta_buffer'] = 0
        if path == 'bulk':
            c['meta_size'] = [2, 2]
            c['bulk_meta_tiles'] = True
        if name in LINK_MODE:
            c['link_single_color_images'] = LINK_MODE[name]
        return c
    on_error = {500: {'response': '#ff0000', 'cache': False}}
    return {
        'services': {'tms': {}, 'wmts': {'restful': True, 'kvp': True}, 'kml': {}, 'wms': {'srs': ['EPSG:3857']}},
        'layers': [{'name': n, 'title': n, 'sources': [n + '_c']} for n in LAYER_NAMES],
        'caches': dict((n + '_c', cache(n)) for n in LAYER_NAMES),
        'sources': {
            'up_wms': {'type': 'wms', 'req': {'url': 'http://wms.test/service', 'layers': 'a'}, 'on_error': on_error},
            'up_tile': {'type': 'tile', 'url': 'http://tiles.test/%(z)s/%(x)s/%(y)s.png', 'grid': 'g',
                        'on_error': on_error},
        },
        'grids': {'g': {'srs': 'EPSG:3857', 'bbox': list(GRID_BBOX), 'res': GRID_RES, 'origin': 'nw'}},
    }


class World(object):
    """One MapProxy application + synthetic upstream + virtual clock + direct store observation."""

    def __init__(self, stats, open_sigs):
        import logging
        logging.getLogger('mapproxy').setLevel(logging.CRITICAL)
        from .. import ground
        from ..refgrid import RefGrid
        self._orig_tz = os.environ.get('TZ')
        self.zone = None
        self.stats = stats
        self.open_sigs = open_sigs
        self.ground_mod = ground
        self.base = tempfile.mkdtemp(prefix='c20_')
        self._patched = []
        self._entered = False
        try:
            self.clock = Clock()
            for n in LAYER_NAMES:
                open(os.path.join(self.base, 'marker_' + n), 'w').close()
            self.up = ground.Upstream(ground.Ground('EPSG:3857', r0=500.0))
            self.up.add_wms('wms.test', render_fn=self._render, fail_fn=self._fail)
            self.up.add_tiles('tiles.test', RefGrid(GRID_BBOX, (TILE_PX, TILE_PX), GRID_RES, 'nw',
                                                    [(rows_of(z), rows_of(z)) for z in range(len(GRID_RES))]),
                              'EPSG:3857', kind='xyz', render_fn=self._render, fail_fn=self._fail)
            self.app = ground.make_app(make_conf(self.base), self.base)
            self.managers = {}
            for key, lyr in self.app.handlers['tms'].layers.items():
                self.managers[lyr.name.split('_EPSG')[0] if isinstance(lyr.name, str) else key] = lyr.tile_manager
            if sorted(self.managers) != LAYER_NAMES:
                raise core.HarnessError('unexpected layers %r' % (sorted(self.managers),))
            self._patch_time()
            self.up.__enter__()
            self._entered = True
            self.solids = self._pick_solids()
            self.reset()
            self._selftest()
            self.reset()
        except BaseException:
            self.close()
            raise

    # -- plumbing ------------------------------------------------------------------------------

    def _patch_time(self):
        import mapproxy.cache.base
        import mapproxy.cache.mbtiles
        import mapproxy.service.tile
        vt = VirtualTime(self.clock)
        for mod in (mapproxy.cache.base, mapproxy.cache.mbtiles, mapproxy.service.tile):
            self._patched.append((mod, mod.time))
            mod.time = vt

    def set_zone(self, zone, base=0):
        """process time zone of the code under test; the harness' own date arithmetic never uses local time"""
        import datetime
        import zoneinfo
        os.environ['TZ'] = zone
        _real_time.tzset()
        self.zone = zone
        self._zoneinfo = zoneinfo.ZoneInfo(zone)
        self.clock.now = CLOCK_BASES[base]
        utc = datetime.datetime.fromtimestamp(CLOCK_BASES[base], datetime.timezone.utc)
        want = int(utc.astimezone(self._zoneinfo).utcoffset().total_seconds())
        got = _real_time.localtime(CLOCK_BASES[base]).tm_gmtoff
        if want != got:
            raise core.HarnessError('TZ=%s not in effect: C library offset %r, tz database %r' % (zone, got, want))

    def close(self):
        if self._orig_tz is None:
            os.environ.pop('TZ', None)
        else:
            os.environ['TZ'] = self._orig_tz
        _real_time.tzset()
        for mod, orig in self._patched:
            mod.time = orig
        self._patched = []
        if self._entered:
            self.up.__exit__(None, None, None)
            self._entered = False
        try:
            for tm in getattr(self, 'managers', {}).values():
                tm.cleanup()
        finally:
            shutil.rmtree(self.base, ignore_errors=True)

    def _pick_solids(self):
        from PIL import Image
        by_len = {}
        for c in SOLID_CANDIDATES:
            buf = io.BytesIO()
            Image.new('RGB', (TILE_PX, TILE_PX), c).save(buf, 'PNG')
            by_len.setdefault(len(buf.getvalue()), []).append((c, buf.getvalue()))
        best = max(by_len.values(), key=len)
        if len(best) < 4:
            raise core.HarnessError('no four solid colours with equal PNG size')
        return best[:4]

    def _render(self, info):
        from PIL import Image
        kind, k = self.content
        if kind == 'solid':
            return Image.new('RGB', tuple(info['size']), self.solids[k][0])
        g = self.ground_mod.Ground('EPSG:3857', r0=500.0, version=k)
        return g.render(info['bbox'], tuple(info['size']), 'EPSG:3857')

    def _fail(self, call):
        return (500, b'', 'text/plain') if self.failing else None

    def content_bytes(self, content, coord):
        kind, k = content
        if kind == 'solid':
            return self.solids[k][1]
        g = self.ground_mod.Ground('EPSG:3857', r0=500.0, version=k)
        buf = io.BytesIO()
        g.render(tile_bbox(coord), (TILE_PX, TILE_PX), 'EPSG:3857').save(buf, 'PNG', compress_level=1)
        return buf.getvalue()

    def reset(self):
        self.set_zone('UTC', 0)
        self.content = ('ground', 0)
        self.failing = False
        self.marker_time = {}
        for n in LAYER_NAMES:
            cache = self.managers[n].cache
            self.managers[n].cleanup()
            if LAYERS[n][0] == 'file':
                shutil.rmtree(cache.cache_dir, ignore_errors=True)
            elif os.path.isdir(cache.cache_dir):
                for fn in os.listdir(cache.cache_dir):
                    if fn.endswith('.mbtile'):
                        db = sqlite3.connect(os.path.join(cache.cache_dir, fn))
                        try:
                            db.execute('DELETE FROM tiles')
                            db.commit()
                        finally:
                            db.close()
            marker = os.path.join(self.base, 'marker_' + n)
            os.utime(marker, (1000, 1000))
            self.marker_time[n] = 1000.0
        self.mtimes = {}
        self.obs = dict(((n, i), None) for n in LAYER_NAMES for i in range(len(TILES)))
        self.gen = dict(((n, i), 0) for n in LAYER_NAMES for i in range(len(TILES)))
        self.rec = {}            # (layer, tile, svc) -> dict(gen, etag, lm, body) of the last cache-served 200
        self.hist = {}           # (layer, tile) -> [(gen, etag, lm)] of every non-fill 200
        self.content_changed = {}  # (layer, tile) -> whole second (harness clock) at/after which the stored bytes last changed
        self.op_started = self.clock.now
        self.issued = {}         # (layer, tile) -> {etag: set of (stored timestamp, stored size) it was issued for}
        self.creating = {}       # (layer, tile, svc) -> [etag] of creating / refreshing 200 responses
        self.events = {}         # (layer, tile) -> 'c' (conditional request) / 'r' (observed rewrite) string
        self.steps = []
        self.classes = set()
        self.n_requests = 0

    def _selftest(self):
        """the address mapping of every service must hit the tile the harness observes"""
        for i, svc in enumerate(SERVICES):
            ti = i % len(TILES)
            for layer in ('fs', 'ss', 'ft'):
                for j in range(len(TILES)):
                    self.remove(layer, j)
                if any(self.obs[(layer, j)] is not None for j in range(len(TILES))):
                    raise core.HarnessError('selftest: remove did not remove')
                path, query = request_for(layer, TILES[ti], svc)
                r = wsgi_get(self.app, path, query, [])
                self.after_op(layer)
                if r.status != 200 or self.obs[(layer, ti)] is None:
                    raise core.HarnessError('selftest: %s request for tile %r of %s -> %d, stored: %r\n%s'
                                            % (svc, TILES[ti], layer, r.status, self.obs[(layer, ti)], r.body[:300]))
                others = [j for j in range(len(TILES)) if j != ti and self.obs[(layer, j)] is not None]
                if others:
                    raise core.HarnessError('selftest: %s request for tile %d stored tiles %r' % (svc, ti, others))

    # -- observation of the store ------------------------------------------------------------------

    def _fix_mtimes(self, layer):
        if LAYERS[layer][0] != 'file':
            return
        root = self.managers[layer].cache.cache_dir
        for dirpath, dirs, files in os.walk(root):
            dirs.sort()
            for fn in sorted(files):
                p = os.path.join(dirpath, fn)
                try:
                    s = os.lstat(p)
                except OSError:
                    continue
                if self.mtimes.get(s.st_ino) != s.st_mtime_ns:
                    # new inode (file or symbolic link) written by this step: created "now" on the harness clock;
                    # a new hard link to an old inode keeps that inode's mtime, as on a real file system
                    ns = int(round(self.clock.tick() * 1e9))
                    os.utime(p, ns=(ns, ns), follow_symlinks=False)
                    self.mtimes[s.st_ino] = ns

    def _observe(self, layer, ti):
        from mapproxy.cache.tile import Tile
        cache = self.managers[layer].cache
        coord = TILES[ti]
        if LAYERS[layer][0] == 'file':
            p = cache.tile_location(Tile(coord))
            try:
                with open(p, 'rb') as f:
                    data = f.read()
                s = os.lstat(p)
            except OSError:
                return None
            # size and timestamp of the directory entry itself (lstat), which is what FileCache reports for a tile:
            # a symbolic link has its own, a hard link shares those of the single-colour file
            return (hashlib.sha1(data).hexdigest()[:16], s.st_size, s.st_mtime)
        p = os.path.join(cache.cache_dir, '%d.mbtile' % coord[2])
        if not os.path.exists(p):
            return None
        db = sqlite3.connect(p)
        try:
            row = db.execute('SELECT tile_data, last_modified FROM tiles WHERE tile_column=? AND tile_row=? AND '
                             'zoom_level=?', coord).fetchone()
        finally:
            db.close()
        if row is None:
            return None
        data = bytes(row[0])
        # the sqlite backend stores local time strings: convert with the tz database (not with the C library)
        import datetime
        local = datetime.datetime.strptime(row[1], '%Y-%m-%d %H:%M:%S').replace(tzinfo=self._zoneinfo)
        ts = calendar.timegm(local.utctimetuple())
        return (hashlib.sha1(data).hexdigest()[:16], len(data), float(ts))

    def after_op(self, layer):
        self.managers[layer].cleanup()
        self._fix_mtimes(layer)
        for ti in range(len(TILES)):
            o = self._observe(layer, ti)
            if o != self.obs[(layer, ti)]:
                old = self.obs[(layer, ti)]
                if o is not None and (old is None or old[0] != o[0]):
                    # the served content changed during a step that began at op_started (harness clock)
                    self.content_changed[(layer, ti)] = int(self.op_started)
                self.obs[(layer, ti)] = o
                self.gen[(layer, ti)] += 1
                self.events[(layer, ti)] = self.events.get((layer, ti), '') + 'r'
                if old is not None and o is not None:
                    self.stats.classes['rewrite:same-size' if old[1] == o[1] else 'rewrite:other-size'] += 1
                    self.stats.classes['rewrite:same-second' if int(old[2]) == int(o[2]) else 'rewrite:later-second'] += 1

    def is_stale(self, layer, ti):
        o = self.obs[(layer, ti)]
        return o is not None and int(o[2]) <= self.marker_time[layer]

    # -- operations ----------------------------------------------------------------------------------

    def apply(self, step):
        """-> list of Violations of this step"""
        self.steps.append(step)
        self.op_started = self.clock.now
        op = step['op']
        if op == 'tz':
            if len(self.steps) != 1:
                raise core.HarnessError('the time zone can only be chosen at the start of a history')
            self.set_zone(step['zone'], step.get('base', 0))
            self.stats.classes['tz:' + step['zone']] += 1
            self.stats.classes['season:' + ('jun' if step.get('base', 0) == 0 else 'jan')] += 1
            return []
        if op == 'get':
            return self.get(step['layer'], step['tile'], step['svc'], tuple(step['inm']), tuple(step['ims']))
        if op == 'rewrite':
            self.rewrite(step['layer'], step['tile'], tuple(step['content']))
        elif op == 'remove':
            self.remove(step['layer'], step['tile'])
        elif op == 'expire':
            self.expire(step['layer'])
        elif op == 'advance':
            self.clock.now += ADVANCES[step['dt']]
            self.stats.classes['op:advance'] += 1
        elif op == 'upstream':
            if step['mode'] == 'fail':
                self.failing = True
            else:
                self.failing = False
                self.content = tuple(step['content'])
            self.stats.classes['op:upstream-' + ('fail' if self.failing else self.content[0])] += 1
        else:
            raise core.HarnessError('unknown op %r' % (op,))
        return []

    def rewrite(self, layer, ti, content):
        from mapproxy.cache.tile import Tile
        from mapproxy.image import ImageSource
        tm = self.managers[layer]
        data = self.content_bytes(content, TILES[ti])
        with tm.session():
            tm.cache.store_tile(Tile(TILES[ti], source=ImageSource(io.BytesIO(data))))
        self.after_op(layer)
        o = self.obs[(layer, ti)]
        # (a linked single-colour tile shows the bytes of whoever stored that colour first)
        linked = layer in LINK_MODE and content[0] == 'solid'
        if o is None or (not linked and o[0] != hashlib.sha1(data).hexdigest()[:16]):
            raise core.HarnessError('direct rewrite of %s/%d not observed: %r' % (layer, ti, o))
        self.stats.classes['op:rewrite-direct-' + content[0]] += 1

    def remove(self, layer, ti):
        from mapproxy.cache.tile import Tile
        tm = self.managers[layer]
        with tm.session():
            tm.cache.remove_tile(Tile(TILES[ti]))
        self.after_op(layer)
        self.stats.classes['op:remove'] += 1

    def expire(self, layer):
        marker = os.path.join(self.base, 'marker_' + layer)
        t = int(self.clock.now)
        os.utime(marker, (t, t))
        self.marker_time[layer] = float(t)
        self.stats.classes['op:expire'] += 1

    # -- header generation -------------------------------------------------------------------------------

    def resolve_inm(self, layer, ti, svc, spec):
        kind = spec[0]
        if kind == 'none':
            return None
        rec = self.rec.get((layer, ti, svc))
        hist = self.hist.get((layer, ti), [])
        if kind == 'current':
            if rec is not None and rec['etag']:
                return rec['etag']
            if hist:
                return hist[-1][1]
            return GARBAGE_ETAGS[0]
        if kind == 'historical':
            old = [h for h in hist if h[0] < self.gen[(layer, ti)]]
            if old:
                return old[spec[1] % len(old)][1]
            return GARBAGE_ETAGS[spec[1] % len(GARBAGE_ETAGS)]
        if kind == 'creating':
            c = self.creating.get((layer, ti, svc)) or [NONE_ETAG]
            return c[spec[1] % len(c)]
        if kind == 'garbage':
            return GARBAGE_ETAGS[spec[1] % len(GARBAGE_ETAGS)]
        cur = (rec or {}).get('etag') or (hist[-1][1] if hist else 'abc')
        if kind == 'quoted':
            return '"%s"' % cur
        if kind == 'list':
            return 'abc, %s' % cur
        raise core.HarnessError('inm spec %r' % (spec,))

    def resolve_ims(self, layer, ti, svc, spec):
        kind = spec[0]
        if kind == 'none':
            return None
        if kind == 'malformed':
            return MALFORMED_DATES[spec[1] % len(MALFORMED_DATES)]
        if kind == 'pre1970':
            return PRE1970_DATES[spec[1] % len(PRE1970_DATES)]
        rec = self.rec.get((layer, ti, svc))
        hist = self.hist.get((layer, ti), [])
        ref = None
        if rec is not None and rec['lm']:
            ref = strict_http_date(rec['lm'])
        if ref is None:
            for h in reversed(hist):
                if h[2] and strict_http_date(h[2]) is not None:
                    ref = strict_http_date(h[2])
                    break
        if ref is None:
            ref = int(self.clock.now)
        fmt = spec[2]
        if kind == 'current':
            return format_date(ref, fmt)
        if kind == 'older':
            return format_date(ref - DATE_DELTAS[spec[1] % len(DATE_DELTAS)], fmt)
        if kind == 'newer':
            return format_date(ref + DATE_DELTAS[spec[1] % len(DATE_DELTAS)], fmt)
        if kind == 'now':
            return format_date(int(self.clock.now), fmt)
        raise core.HarnessError('ims spec %r' % (spec,))

    # -- the judged request --------------------------------------------------------------------------------

    def get(self, layer, ti, svc, inm_spec, ims_spec, probe=False):
        st_ = self.stats
        key = (layer, ti)
        path_kind = LAYERS[layer][1]
        fam = svc_family(svc)
        inm = self.resolve_inm(layer, ti, svc, inm_spec)
        ims = self.resolve_ims(layer, ti, svc, ims_spec)
        needs_upstream = self.obs[key] is None or self.is_stale(layer, ti)

        # known findings: exclude exactly their constructs while they are open
        if self.failing and needs_upstream:
            if fam in ('wmts', 'kml') and SIG_FILL_WMTS_KML in self.open_sigs:
                st_.excluded['fill-tile-request-via-wmts-or-kml'] += 1
                return []
            if fam in ('tms', 'wmsc') and path_kind == 'meta' and SIG_FILL_META in self.open_sigs:
                st_.excluded['fill-tile-request-via-tms-or-wmsc-on-meta-tile-cache'] += 1
                return []
            if fam == 'wmsc' and (inm is not None or ims is not None) and SIG_WMSC_FILL_304 in self.open_sigs:
                st_.excluded['conditional-fill-tile-request-via-wmsc'] += 1
                inm = ims = None
        if layer in LINK_MODE and inm == NONE_ETAG and needs_upstream and SIG_LINK_CREATE in self.open_sigs:
            st_.excluded['if-none-match-of-None-None-etag-on-request-that-creates-a-linked-tile'] += 1
            inm = None
        if ims_spec[0] == 'pre1970' and SIG_PRE1970 in self.open_sigs:
            st_.excluded['if-modified-since-before-1970'] += 1
            ims = None
        if (inm is not None or ims is not None) and needs_upstream and not self.failing:
            if path_kind == 'meta' and SIG_REWRITE_META in self.open_sigs:
                st_.excluded['conditional-request-that-creates-or-refreshes-via-meta-tile'] += 1
                inm = ims = None
            elif path_kind == 'single' and self.obs[key] is not None and SIG_REWRITE_SINGLE in self.open_sigs:
                st_.excluded['conditional-request-that-refreshes-an-expired-tile'] += 1
                inm = ims = None

        headers = []
        if inm is not None:
            headers.append(('If-None-Match', inm))
        if ims is not None:
            headers.append(('If-Modified-Since', ims))
        conditional = bool(headers)

        pre_obs, pre_gen = self.obs[key], self.gen[key]
        pre_rec = self.rec.get((layer, ti, svc))
        pre_rec_valid = pre_rec is not None and pre_rec['gen'] == pre_gen
        path, query = request_for(layer, TILES[ti], svc)
        self.up.clear()
        self.op_started = self.clock.now
        r = wsgi_get(self.app, path, query, headers)
        calls = self.up.calls()
        self.after_op(layer)
        post_obs, post_gen = self.obs[key], self.gen[key]
        self.n_requests += 1
        upstream_called = bool(calls)
        upstream_failed = any(c.info.get('failed') for c in calls)
        rewritten = post_gen != pre_gen
        cache_served = (not upstream_called) and (not rewritten) and post_obs is not None
        if conditional:
            self.events[key] = self.events.get(key, '') + 'c'

        case = {'steps': list(self.steps), 'excluded_signatures': sorted(self.open_sigs)}
        where = '%s tile %r of layer %s (%s cache, %s creation)' % (
            svc, TILES[ti], layer, LAYERS[layer][0] + ('+' + LINK_MODE[layer] if layer in LINK_MODE else ''), path_kind)
        out = []
        if r.status not in (200, 304):
            raise core.HarnessError('unexpected status %d for %s: %r' % (r.status, where, r.body[:400]))

        etag = r.get('etag')
        lm = r.get('last-modified')
        cls = ['svc:' + svc, 'layer:' + layer, 'status:%d' % r.status,
               'inm:' + (inm_spec[0] if inm is not None else 'none'), 'ims:' + (ims_spec[0] if ims is not None else 'none'),
               'situation:' + ('fill' if upstream_failed else 'cache' if cache_served else
                               'refreshed' if (rewritten and pre_obs is not None) else 'created' if rewritten else
                               'refetched-identical' if upstream_called else 'other')]
        if inm is not None and ims is not None:
            cls.append('both-validators')
        if probe:
            cls = ['probe']
        for c in cls:
            st_.classes[c] += 1

        if r.status == 200:
            if upstream_failed:
                out.extend(self._judge_fill(r, layer, svc, where, case))
            else:
                if etag:
                    self.hist.setdefault(key, []).append((post_gen, etag, lm))
                if cache_served:
                    for name, val in (('etag', etag), ('last-modified', lm)):
                        if not val:
                            out.append(core.Violation('C20/validators-missing/' + name,
                                                      '200 from the cache without %s: %s' % (name, where), case))
                    body = hashlib.sha1(r.body).hexdigest()[:16]
                    if pre_rec_valid:
                        for name, a, b in (('etag', pre_rec['etag'], etag), ('last-modified', pre_rec['lm'], lm),
                                           ('body', pre_rec['body'], body)):
                            if a != b:
                                out.append(core.Violation(
                                    'C20/validators-unstable/' + name,
                                    'two 200 responses for %s without a rewrite in between differ in %s: %r then %r'
                                    % (where, name, a, b), case))
                        if inm is not None and inm == pre_rec['etag']:
                            out.append(core.Violation(
                                'C20/current-etag-not-304' + ('/with-date' if ims is not None else ''),
                                'If-None-Match: %s is the current ETag of %s (tile unchanged, served from the cache) but '
                                'the answer is 200 (If-Modified-Since: %r)' % (inm, where, ims), case))
                    self.rec[(layer, ti, svc)] = {'gen': post_gen, 'etag': etag, 'lm': lm, 'body': body}
                    if etag:
                        self.issued.setdefault(key, {}).setdefault(etag, set()).add((post_obs[2], post_obs[1]))
                else:
                    if etag:
                        self.creating.setdefault((layer, ti, svc), []).append(etag)
                    st_.notes['creating-responses'] += 1
                    if not lm:
                        st_.notes['creating-response-without-last-modified'] += 1
                    if etag == NONE_ETAG:
                        st_.notes['creating-response-with-etag-of-None-None'] += 1
        else:
            if r.body:
                out.append(core.Violation('C20/304-with-body', '304 with %d body bytes: %s' % (len(r.body), where), case))
            out.extend(self._judge_304(r, layer, ti, svc, inm, ims, ims_spec, pre_obs, pre_rec if pre_rec_valid else None,
                                       rewritten, upstream_failed, cache_served, where, case))
        return out

    def _judge_fill(self, r, layer, svc, where, case):
        st_ = self.stats
        try:
            img = self.ground_mod.decode_image(r.body).convert('RGB')
            px = img.getpixel((img.size[0] // 2, img.size[1] // 2))
        except Exception:
            px = None
        if px != FILL_RGB:
            st_.notes['upstream-failed-but-body-is-not-the-fill-colour'] += 1
            return []
        d = r.cache_directives()
        public = 'public' in d or any(x.startswith(('max-age=', 's-maxage=')) and x.split('=')[1] not in ('0', '') for x in d)
        st_.classes['fill-tile-judged'] += 1
        if 'no-store' in d:
            if public:
                st_.notes['fill-tile-with-no-store-and-public-max-age'] += 1
            if r.get('etag'):
                st_.notes['fill-tile-with-no-store-and-etag'] += 1
            return []
        fam = svc_family(svc)
        if fam in ('wmts', 'kml'):
            sig = SIG_FILL_WMTS_KML
        elif LAYERS[layer][1] == 'meta':
            sig = SIG_FILL_META
        else:
            sig = 'C20/fill-without-no-store/%s-%s' % (fam, LAYERS[layer][1])
        return [core.Violation(sig, 'upstream 500 mapped to an uncached fill image, but %s is answered with '
                               'Cache-Control %r, ETag %r (no no-store)' % (where, r.all('cache-control'), r.get('etag')),
                               case)]

    def _judge_304(self, r, layer, ti, svc, inm, ims, ims_spec, pre_obs, pre_rec, rewritten, upstream_failed,
                   cache_served, where, case):
        st_ = self.stats
        key = (layer, ti)
        out = []
        post_obs, post_gen = self.obs[key], self.gen[key]
        path_kind = LAYERS[layer][1]
        ims_t = strict_http_date(ims) if ims is not None else None
        presented = 'inm-%s/ims-%s' % (
            'none' if inm is None else 'set',
            'none' if ims is None else ('pre1970' if (ims_t is not None and ims_t < 0) else
                                        'unparseable' if ims_t is None else 'date'))
        if post_obs is None:
            sig = 'C20/304-unsound/tile-not-stored'
            if upstream_failed and svc == 'wmsc':
                sig = SIG_WMSC_FILL_304
            return [core.Violation(sig, '304 for %s although no tile is stored%s (If-None-Match %r, If-Modified-Since %r)'
                                   % (where, ' (upstream answered 500: uncached fill image)' if upstream_failed else '',
                                      inm, ims), case)]
        cur = self.rec.get((layer, ti, svc))
        if cur is None or cur['gen'] != post_gen:
            if self.is_stale(layer, ti) and not self.failing:
                st_.inconclusive['304-but-probe-would-rewrite-the-tile'] += 1
                return out
            if self.failing and self.is_stale(layer, ti):
                st_.inconclusive['304-for-expired-tile-while-upstream-fails'] += 1
                return out
            out.extend(self.get(layer, ti, svc, ('none',), ('none',), probe=True))
            cur = self.rec.get((layer, ti, svc))
            if cur is None or cur['gen'] != post_gen or self.gen[key] != post_gen:
                st_.inconclusive['304-but-current-validators-unknown'] += 1
                return out
        e_now, lm_now = cur['etag'], cur['lm']
        lm_t = strict_http_date(lm_now) if lm_now else None
        by_etag = etag_matches(inm, e_now)
        by_date = ims_t is not None and lm_t is not None and ims_t >= lm_t
        # validators repeated on the 304
        if not r.get('etag'):
            out.append(core.Violation('C20/304-validators/etag-missing', '304 without ETag for %s' % where, case))
        elif r.get('etag') != e_now and cache_served:
            out.append(core.Violation('C20/304-validators/etag-differs', '304 carries ETag %r, current is %r: %s'
                                      % (r.get('etag'), e_now, where), case))
        if r.get('last-modified') and r.get('last-modified') != lm_now and cache_served:
            out.append(core.Violation('C20/304-validators/last-modified-differs', '304 carries Last-Modified %r, current '
                                      'is %r: %s' % (r.get('last-modified'), lm_now, where), case))
        if inm is not None and inm == e_now and not by_date:
            # the 304 rests on ETag equality alone: the same ETag must not also have been issued for an earlier
            # version of this tile whose stored timestamp or size differed (DESIGN: "after a rewrite that changed
            # the validators the old ETag alone never yields 304"; validators derive from timestamp and size)
            now_meta = (post_obs[2], post_obs[1])
            other = sorted(m for m in self.issued.get(key, {}).get(inm, ()) if m != now_meta)
            if other:
                out.append(core.Violation(
                    'C20/304-unsound/etag-survives-rewrite',
                    '304 for %s on If-None-Match %r: this ETag was issued for the tile stored with (timestamp, size) = '
                    '%r and is still honoured now that the tile is stored with %r' % (where, inm, other[0], now_meta),
                    case))
                return out
        changed = self.content_changed.get(key)
        if not by_etag and ims_t is not None and changed is not None and ims_t < changed \
                and LINK_MODE.get(layer) == 'hardlink':
            # documented: hard-linked tiles share the metadata of the first tile of that colour; the tile as stored
            # reports that (older) Last-Modified and a date >= it matches - judged by the ordinary clause below
            st_.classes['304:hardlink-date-after-shared-mtime-but-before-rewrite'] += 1
        elif not by_etag and ims_t is not None and changed is not None and ims_t < changed:
            # "not modified since D", but the harness saw the stored bytes of this tile change at a time > D
            out.append(core.Violation(
                'C20/304-unsound/modified-after-ims-date' + ('/' + LINK_MODE[layer] if layer in LINK_MODE else ''),
                '304 for %s on If-Modified-Since %r (no matching ETag presented), but the stored tile content changed at '
                'or after %s; the cache now reports Last-Modified %r' % (where, ims, format_date(changed, 'imf'), lm_now),
                case))
            return out
        if by_etag or by_date:
            if not by_etag and inm is not None:
                st_.notes['304-by-date-although-presented-etag-does-not-match (RFC 7232 precedence)'] += 1
            st_.classes['304:legitimate'] += 1
            return out
        # illegitimate: attribute
        msg = ('304 for %s, but no presented validator matches the tile as now stored: If-None-Match %r vs current '
               'ETag %r; If-Modified-Since %r vs current Last-Modified %r' % (where, inm, e_now, ims, lm_now))
        if rewritten:
            old_ok = False
            if pre_rec is not None:
                old_lm_t = strict_http_date(pre_rec['lm']) if pre_rec['lm'] else None
                old_ok = etag_matches(inm, pre_rec['etag']) or (ims_t is not None and old_lm_t is not None
                                                               and ims_t >= old_lm_t)
            if not old_ok and inm is not None:
                old_ok = inm in self.creating.get((layer, ti, svc), []) or \
                    any(inm == h[1] for h in self.hist.get(key, [])) or inm == NONE_ETAG
            if not old_ok and ims_t is not None and pre_obs is not None:
                old_ok = ims_t >= int(pre_obs[2])
            if old_ok:
                sig = SIG_REWRITE_META if path_kind == 'meta' else SIG_REWRITE_SINGLE
                if layer in LINK_MODE and r.get('etag') == NONE_ETAG and etag_matches(inm, NONE_ETAG):
                    sig = SIG_LINK_CREATE
                out.append(core.Violation(sig, msg + ' - the tile was (re)written while this request was served '
                                          '(store before: %r, now: %r)' % (pre_obs, post_obs), case))
                return out
        if presented.endswith('ims-pre1970') and not (inm is not None and rewritten):
            out.append(core.Violation(SIG_PRE1970, msg, case))
            return out
        out.append(core.Violation('C20/304-unsound/%s%s' % (presented, '/rewritten-by-this-request' if rewritten else ''),
                                  msg, case))
        return out

    def finish(self):
        """record the history as one evaluated case"""
        nontrivial = any(re.search('c.*r.*c', ev) for ev in self.events.values())
        cls = ['history']
        if nontrivial:
            cls.append('history:rewrite-between-conditionals')
        if any('r' in ev for ev in self.events.values()):
            cls.append('history:with-rewrite')
        self.stats.case(key=self.steps, nontrivial=nontrivial, classes=cls,
                        sample={'steps': self.steps[:12], 'n_steps': len(self.steps)})
        self.stats.notes['requests_judged'] += self.n_requests


# ------------------------------------------------------------------------------------------------
# generation

def open_signatures():
    """open findings of known_findings.d; VERIF_C20_ASSUME_FIXED=all (or a comma separated list of signatures) treats
    them as repaired - used only to verify a proposed fix on a scratch copy before the finding is marked fixed"""
    sigs = set(core.open_signatures(PROPERTY))
    assume = os.environ.get('VERIF_C20_ASSUME_FIXED', '').strip()
    if assume in ('1', 'all'):
        return set()
    if assume:
        sigs -= set(x.strip() for x in assume.split(','))
    return sigs


FMT = st.sampled_from(['imf', 'imf', 'imf', 'rfc850', 'asctime'])
INM = st.one_of(
    st.just(('none',)), st.just(('none',)), st.just(('current',)), st.just(('current',)), st.just(('current',)),
    st.tuples(st.just('historical'), st.integers(0, 7)), st.tuples(st.just('historical'), st.integers(0, 7)),
    st.tuples(st.just('creating'), st.integers(0, 3)),
    st.tuples(st.just('garbage'), st.integers(0, len(GARBAGE_ETAGS) - 1)),
    st.just(('quoted',)), st.just(('list',)))
IMS = st.one_of(
    st.just(('none',)), st.just(('none',)), st.just(('none',)),
    st.tuples(st.just('current'), st.just(0), FMT),
    st.tuples(st.just('older'), st.integers(0, len(DATE_DELTAS) - 1), FMT),
    st.tuples(st.just('older'), st.integers(0, len(DATE_DELTAS) - 1), FMT),
    st.tuples(st.just('newer'), st.integers(0, len(DATE_DELTAS) - 1), FMT),
    st.tuples(st.just('now'), st.just(0), FMT),
    st.tuples(st.just('malformed'), st.integers(0, len(MALFORMED_DATES) - 1)),
    st.tuples(st.just('pre1970'), st.integers(0, len(PRE1970_DATES) - 1)))
CONTENT = st.one_of(st.tuples(st.just('ground'), st.integers(0, 5)), st.tuples(st.just('solid'), st.integers(0, 3)),
                    st.tuples(st.just('solid'), st.integers(0, 3)))
FOCUS = st.sampled_from(['focus', 'focus', 'focus', 'other'])

_world = {}


def get_world(stats):
    w = _world.get('w')
    if w is None:
        w = World(stats, open_signatures())
        _world['w'] = w
    w.stats = stats
    return w


def close_world():
    w = _world.pop('w', None)
    if w is not None:
        w.close()


class ConditionalMachine(RuleBasedStateMachine):
    _ignored_signatures = set()
    _stats = None

    def __init__(self):
        RuleBasedStateMachine.__init__(self)
        self.w = get_world(self._stats)
        self.w.reset()
        self.focus = ('fm', 0, 'tms')
        self.dead = False

    @initialize(layer=st.sampled_from(LAYER_NAMES), ti=st.integers(0, len(TILES) - 1), svc=st.sampled_from(SERVICES),
                zone=st.sampled_from(ZONES), base=st.integers(0, len(CLOCK_BASES) - 1))
    def start(self, layer, ti, svc, zone, base):
        self.focus = (layer, ti, svc)
        self.do({'op': 'tz', 'zone': zone, 'base': base})

    def target(self, which, layer, ti, svc=None):
        if which == 'focus':
            return self.focus
        if which == 'focus-tile':
            return (self.focus[0], self.focus[1], svc)
        return (layer, ti, svc)

    def do(self, step):
        if self.dead:
            return
        for v in self.w.apply(step):
            if v.signature not in self._ignored_signatures:
                self.dead = True
                raise core.MachineViolation(v)

    @rule(which=st.sampled_from(['focus', 'focus', 'focus-tile', 'other']), layer=st.sampled_from(LAYER_NAMES),
          ti=st.integers(0, len(TILES) - 1), svc=st.sampled_from(SERVICES), inm=INM, ims=IMS)
    def get(self, which, layer, ti, svc, inm, ims):
        layer, ti, svc = self.target(which, layer, ti, svc)
        self.do({'op': 'get', 'layer': layer, 'tile': ti, 'svc': svc, 'inm': list(inm), 'ims': list(ims)})

    @rule(ims=st.one_of(st.just(('none',)), IMS))
    def get_current_etag(self, ims):
        layer, ti, svc = self.focus
        self.do({'op': 'get', 'layer': layer, 'tile': ti, 'svc': svc, 'inm': ['current'], 'ims': list(ims)})

    @rule()
    def get_plain(self):
        layer, ti, svc = self.focus
        self.do({'op': 'get', 'layer': layer, 'tile': ti, 'svc': svc, 'inm': ['none'], 'ims': ['none']})

    @rule(k=st.integers(0, 7), inm=st.booleans(), ims=st.sampled_from(['none', 'older', 'current']), fmt=FMT,
          d=st.integers(0, len(DATE_DELTAS) - 1))
    def get_stale_validators(self, k, inm, ims, fmt, d):
        layer, ti, svc = self.focus
        if not inm and ims == 'none':
            inm = True
        self.do({'op': 'get', 'layer': layer, 'tile': ti, 'svc': svc,
                 'inm': ['historical', k] if inm else ['none'], 'ims': ['none'] if ims == 'none' else [ims, d, fmt]})

    @rule(kind=st.sampled_from(['rewrite', 'rewrite', 'rewrite', 'remove', 'expire', 'expire']), which=FOCUS,
          layer=st.sampled_from(LAYER_NAMES), ti=st.integers(0, len(TILES) - 1), content=CONTENT)
    def mutate(self, kind, which, layer, ti, content):
        layer, ti, _ = self.target(which, layer, ti)
        if kind == 'rewrite':
            self.do({'op': 'rewrite', 'layer': layer, 'tile': ti, 'content': list(content)})
        elif kind == 'remove':
            self.do({'op': 'remove', 'layer': layer, 'tile': ti})
        else:
            self.do({'op': 'expire', 'layer': layer})

    @rule(kind=st.sampled_from(['advance', 'advance', 'content', 'content', 'fail']), dt=st.integers(0, len(ADVANCES) - 1),
          content=CONTENT)
    def environment(self, kind, dt, content):
        if kind == 'advance':
            self.do({'op': 'advance', 'dt': dt})
        else:
            self.do({'op': 'upstream', 'mode': 'fail' if kind == 'fail' else 'content', 'content': list(content)})

    @rule(dt=st.integers(0, len(ADVANCES) - 1))
    def advance(self, dt):
        self.do({'op': 'advance', 'dt': dt})

    def teardown(self):
        if self.w.steps:
            self.w.finish()


def machine_shard(shard, nshards, seed, tier):
    st_ = core.Stats()
    if tier == 'quick':
        n, steps = 3200 // nshards, 30
    else:
        n, steps = 24000 // nshards, 50
    try:
        core.run_machine(ConditionalMachine, st_, max_examples=n, seed=seed, step_count=steps, max_signatures=2)
    finally:
        close_world()
    return st_


def run(tier, seed, stats):
    stats.merge(core.parallel(machine_shard, 16, seed, tier))


def replay(case, stats):
    """re-execute a serialised history without Hypothesis; all violations of the history are returned"""
    w = World(stats, set(case.get('excluded_signatures') or []))
    try:
        seen = {}
        for step in case['steps']:
            for v in w.apply(dict(step)):
                seen.setdefault(v.signature, v)
        w.finish()
        return list(seen.values())
    finally:
        w.close()
