"""C03 - Tile grids tile the plane: exact, gap-free and consistent coordinate arithmetic.

Generated grids and queries are compared with the exact-rational reference grid (refgrid.py).
See DESIGN.md section 4.
"""
import itertools
import math
from fractions import Fraction as Fr

from hypothesis import strategies as st

from .. import core
from ..refgrid import RefGrid, ulp_of, closest_level_spec

PROPERTY = 'C03'
LEVEL = 'exploration'
RULE = ('Hypothesis-generated grid definitions (bbox from nice/nasty floats, tile size incl. non-square, '
        'origin ll/ul, factor 2 / sqrt2 / arbitrary factor / custom resolution lists, deep 16-24 level pyramids of the '
        'global geodetic / mercator and regional grids queried at their finest levels and largest tile indices, stretch factor, '
        'threshold_res) x queries (points, rectangles and resolutions placed on, one ulp beside, '
        '0.05/0.1/0.15 px beside and far from tile edges / level boundaries) checked against an '
        'exact-rational reference grid; plus bounded-exhaustive enumeration of all rectangles on an '
        'edge lattice of tiny grids. A case is non-trivial when a query coordinate lies within 0.2 px '
        'of a tile edge, the origin is ul, the tile is non-square, the bbox is not a multiple of the '
        'tile span, or the resolution lies within 1% of a level / stretch boundary; distinct = '
        'distinct (grid definition, query) pairs.')
ASSUMPTIONS = [
    'reference model: exact rational arithmetic over the binary values of the configured floats',
    'tolerance tau = max(2.5e-12 units (tile_bbox rounds twice to 12 decimals), 8 ulp of the largest coordinate, 1e-9 tile spans)',
    'grids restricted to the numerically meaningful range (resolution >= 1e-9 of coordinate magnitude)',
    'rectangles thinner than 0.2 px that make the inset corners cross (GridError) are counted, not judged',
]


def _mapproxy():
    from mapproxy import grid as mgrid
    return mgrid


# ------------------------------------------------------------------------------------------------
# generators

NASTY_ORIGINS = [0.0, -20037508.342789244, -180.0, -90.0, 1.0, -1.0, 0.1, -0.3, 12.5, 300000.0,
                 5200000.0, 3280000.123, -1234567.891, 1e-3, 643211.3333333334, 2 ** 20 + 0.5]
NASTY_SIZES = [40075016.68557849, 360.0, 180.0, 1.0, 10.0, 100.0, 1000.0, 0.1, 0.3, 7.0, 2 ** 10, 333.3333,
               600000.0, 123456.789, 20037508.342789244, 5000.0, 99999.99]

TILE_SIZES = [(256, 256), (512, 512), (128, 128), (64, 64), (100, 100), (256, 128), (128, 256), (3, 2),
              (2, 2), (1, 1), (7, 5), (300, 200), (16, 16)]


@st.composite
def grid_defs(draw):
    x0 = draw(st.one_of(st.sampled_from(NASTY_ORIGINS),
                        st.floats(-2e7, 2e7, allow_nan=False, allow_infinity=False)))
    y0 = draw(st.one_of(st.sampled_from(NASTY_ORIGINS),
                        st.floats(-2e7, 2e7, allow_nan=False, allow_infinity=False)))
    w = draw(st.one_of(st.sampled_from(NASTY_SIZES), st.floats(1e-2, 4e7)))
    if draw(st.booleans()):
        h = w
    else:
        h = draw(st.one_of(st.sampled_from(NASTY_SIZES), st.floats(1e-2, 4e7)))
    # keep aspect ratio moderate so that both axes have tiles of sensible count
    if h > w * 50:
        h = w * 50
    if w > h * 50:
        w = h * 50
    bbox = (x0, y0, x0 + w, y0 + h)
    tile_size = draw(st.sampled_from(TILE_SIZES))
    origin = draw(st.sampled_from(['ll', 'ul', 'sw', 'nw']))
    mode = draw(st.sampled_from(['f2', 'f2', 'sqrt2', 'factor', 'custom', 'custom', 'minmax', 'deep']))
    if mode == 'deep':
        # deep pyramids at the fine end of the numerically meaningful range (res down to ~2e-9 of the coordinate
        # magnitude, tile indices in the millions): the global geodetic / mercator grids and regional ones
        bbox = draw(st.sampled_from([(-180.0, -90.0, 180.0, 90.0), (-180.0, -90.0, 180.0, 90.0),
                                     (-20037508.342789244, -20037508.342789244, 20037508.342789244, 20037508.342789244),
                                     (5.0, 47.0, 15.5, 55.25), (300000.0, 5200000.0, 900000.0, 6000000.0)]))
        w, h = bbox[2] - bbox[0], bbox[3] - bbox[1]
        tile_size = draw(st.sampled_from([(256, 256), (256, 256), (512, 512), (256, 128), (100, 100)]))
    d = {'bbox': bbox, 'tile_size': tile_size, 'origin': origin, 'mode': mode}
    init = max(w / tile_size[0], h / tile_size[1])
    if mode == 'deep':
        d['num_levels'] = draw(st.integers(16, 24))
    elif mode == 'f2':
        d['num_levels'] = draw(st.integers(1, 14))
    elif mode == 'sqrt2':
        d['num_levels'] = draw(st.integers(1, 20))
    elif mode == 'factor':
        d['res_factor'] = draw(st.floats(1.05, 4.0))
        d['num_levels'] = draw(st.integers(1, 10))
    elif mode == 'minmax':
        d['min_res'] = init * draw(st.floats(0.2, 1.5))
        d['num_levels'] = draw(st.integers(2, 10))
        d['res_factor'] = draw(st.sampled_from([2.0, 1.5, 3.0]))
    else:
        n = draw(st.integers(1, 8))
        # custom list: ratios between levels incl. levels closer together than the stretch factor
        ratios = draw(st.lists(st.one_of(st.sampled_from([2.0, 1.05, 1.1, 1.15, 1.5, 2.5, 4.0, 10.0]),
                                         st.floats(1.01, 8.0)), min_size=n, max_size=n))
        r = init * draw(st.sampled_from([1.0, 1.0, 0.5, 0.37, 1.3, 2.0]))
        res = []
        for q in ratios:
            res.append(r)
            r = r / q
        if draw(st.booleans()):
            # "nice" decimal resolutions
            res = sorted(set(float('%.3g' % v) for v in res), reverse=True)
        d['res'] = res
    d['stretch_factor'] = draw(st.sampled_from([1.15, 1.15, 1.0, 1.01, 1.5, 2.0, 1.25]))
    d['thresholds'] = draw(st.lists(st.tuples(st.integers(1, 12), st.sampled_from([0.0, 0.25, 0.5, 0.9])),
                                    max_size=3)) if draw(st.integers(0, 3)) == 0 else []
    return d


def build_grid(d):
    mgrid = _mapproxy()
    kw = dict(srs='EPSG:3857', bbox=list(d['bbox']), tile_size=tuple(d['tile_size']), origin=d['origin'],
              stretch_factor=d['stretch_factor'])
    mode = d['mode']
    if mode in ('f2', 'deep'):
        kw['num_levels'] = d['num_levels']
    elif mode == 'sqrt2':
        kw['res_factor'] = 'sqrt2'
        kw['num_levels'] = d['num_levels']
    elif mode == 'factor':
        kw['res_factor'] = d['res_factor']
        kw['num_levels'] = d['num_levels']
    elif mode == 'minmax':
        kw['min_res'] = d['min_res']
        kw['res_factor'] = d['res_factor']
        kw['num_levels'] = d['num_levels']
    else:
        kw['res'] = list(d['res'])
    g = mgrid.tile_grid(**kw)
    res = list(g.resolutions)
    # threshold_res: at most one per interval between two levels, given as (interval index, position)
    thr = {}
    for idx, pos in d.get('thresholds') or []:
        if idx < len(res) and res[idx - 1] > res[idx]:
            thr[idx] = res[idx] + (res[idx - 1] - res[idx]) * pos
    if thr:
        kw['threshold_res'] = sorted(thr.values())
        g = mgrid.tile_grid(**kw)
    return g, thr


def meaningful(g):
    """numerically meaningful range: resolution at least 1e-9 of the coordinate magnitude"""
    m = max(abs(v) for v in g.bbox)
    res = list(g.resolutions)
    if len(set(res)) != len(res):
        return False
    return all(r >= 1e-9 * m and r >= 1e-7 for r in res) and all(
        gs[0] * gs[1] < 10 ** 14 for gs in g.grid_sizes)


EDGE_OFFSETS_PX = [0.0, 0.0, 0.05, -0.05, 0.1, -0.1, 0.15, -0.15, 0.5, -0.5, 0.02, -0.02, 0.2, -0.2]


@st.composite
def coord_near_edge(draw, n_tiles):
    """(tile index, offset description) -> a coordinate placed relative to a tile edge"""
    idx = draw(st.one_of(st.integers(-2, 3), st.integers(0, max(0, n_tiles)),
                         st.integers(max(0, n_tiles - 2), n_tiles + 2)))
    kind = draw(st.sampled_from(['px', 'px', 'ulp', 'frac']))
    if kind == 'px':
        off = draw(st.sampled_from(EDGE_OFFSETS_PX))
    elif kind == 'ulp':
        off = draw(st.sampled_from([-2, -1, 1, 2]))
    else:
        off = draw(st.floats(0.001, 0.999))
    return (idx, kind, off)


def place(ref, z, axis, spec, g):
    """float coordinate for an edge spec; axis 0 = x (from west), axis 1 = y (from south, sw numbering)"""
    idx, kind, off = spec
    sx, sy = ref.span(z)
    span = sx if axis == 0 else sy
    base = ref.bbox[axis] + idx * span
    res = ref.res[z]
    if kind == 'px':
        return float(base + Fr(off) * res)
    if kind == 'ulp':
        f = float(base)
        for _ in range(abs(off)):
            f = math.nextafter(f, math.inf if off > 0 else -math.inf)
        return f
    return float(base + Fr(off) * span)


@st.composite
def cases(draw):
    d = draw(grid_defs())
    kind = draw(st.sampled_from(['point', 'rect', 'rect', 'rect', 'level', 'level', 'flip', 'sizes']))
    q = {'kind': kind}
    q['level_pick'] = draw(st.integers(0, 40))
    if kind == 'point':
        q['px'] = draw(coord_near_edge(8))
        q['py'] = draw(coord_near_edge(8))
    elif kind == 'rect':
        q['a'] = draw(coord_near_edge(8))
        q['b'] = draw(coord_near_edge(8))
        q['c'] = draw(coord_near_edge(8))
        q['d'] = draw(coord_near_edge(8))
        q['thin'] = draw(st.sampled_from([None, None, None, None, None, 0.05, 0.15, 0.19, 0.25]))
    elif kind == 'level':
        q['rel'] = draw(st.sampled_from(['at', 'stretch', 'free', 'between', 'threshold']))
        q['nudge'] = draw(st.sampled_from([0, 0, 1, -1, 2, -2, 1e-3, -1e-3, 1e-2, -1e-2]))
        q['f'] = draw(st.floats(0.05, 30.0))
    elif kind == 'flip':
        q['tx'] = draw(st.integers(0, 10 ** 6))
        q['ty'] = draw(st.integers(0, 10 ** 6))
    return {'grid': d, 'query': q}


# ------------------------------------------------------------------------------------------------
# oracle


def tau_for(ref, z, *coords):
    sx, sy = ref.span(z)
    u = ulp_of(*([float(v) for v in ref.bbox] + [float(c) for c in coords]))
    return max(Fr(25, 10 ** 13), Fr(8 * u), max(sx, sy) / 10 ** 9)


def sig(name):
    return 'C03/' + name


def check_tile_bbox(g, ref, x, y, z, case):
    """tile_bbox agrees with the exact rectangle (implies shared edges, no gaps, no overlaps)."""
    got = g.tile_bbox((x, y, z))
    exp = ref.tile_rect(x, y, z)
    tau = tau_for(ref, z, *exp)
    for i in range(4):
        if abs(Fr(got[i]) - exp[i]) > tau:
            return core.Violation(sig('tile_bbox/inexact'),
                                  'tile_bbox(%r) = %r, exact %r' % ((x, y, z), got, [float(e) for e in exp]), case)
    # neighbouring tiles share edges (within tau) -> checked through the implementation too
    right = g.tile_bbox((x + 1, y, z))
    up = g.tile_bbox((x, y + 1, z))
    if abs(Fr(right[0]) - Fr(got[2])) > tau:
        return core.Violation(sig('tile_bbox/gap-x'), 'tiles %r and its east neighbour do not share an edge: %r %r'
                              % ((x, y, z), got, right), case)
    shared = (up[3], got[1]) if ref.ul else (up[1], got[3])
    if abs(Fr(shared[0]) - Fr(shared[1])) > tau:
        return core.Violation(sig('tile_bbox/gap-y'), 'tiles %r and its y+1 neighbour do not share an edge: %r %r'
                              % ((x, y, z), got, up), case)
    return None


def check_point(g, ref, z, px, py, case, st_):
    tx, ty, tz = g.tile(px, py, z)
    if tz != z:
        return core.Violation(sig('tile/level'), 'tile() changed the level', case)
    rect = ref.tile_rect(tx, ty, z)
    tau = tau_for(ref, z, px, py)
    if not (rect[0] - tau <= Fr(px) <= rect[2] + tau and rect[1] - tau <= Fr(py) <= rect[3] + tau):
        return core.Violation(sig('tile/not-containing'),
                              'tile(%r, %r, %d) = %r whose rectangle %r does not contain the point'
                              % (px, py, z, (tx, ty), [float(v) for v in rect]), case)
    got = g.tile_bbox((tx, ty, z))
    if not (Fr(got[0]) - tau <= Fr(px) <= Fr(got[2]) + tau and Fr(got[1]) - tau <= Fr(py) <= Fr(got[3]) + tau):
        return core.Violation(sig('tile/bbox-not-containing'),
                              'tile_bbox(tile(p)) = %r does not contain p = %r' % (got, (px, py)), case)
    # interior points (farther than tau from every edge) have exactly one owner
    ex, ey = ref.tile_of_point(px, py, z)
    if (tx, ty) != (ex, ey):
        r2 = ref.tile_rect(ex, ey, z)
        near = min(abs(Fr(px) - r2[0]), abs(Fr(px) - r2[2]), abs(Fr(py) - r2[1]), abs(Fr(py) - r2[3]))
        if near > tau:
            return core.Violation(sig('tile/wrong-owner'), 'tile(%r,%r,%d) = %r, exact owner %r'
                                  % (px, py, z, (tx, ty), (ex, ey)), case)
    return check_tile_bbox(g, ref, tx, ty, z, case)


def axis_overlap(lo, hi, a, b):
    return min(hi, b) - max(lo, a)


def check_rect(g, ref, z, rect, case, st_):
    mgrid = _mapproxy()
    a0, b0, a1, b1 = rect
    res = ref.res[z]
    tau = tau_for(ref, z, *rect)
    band = res / 10 + tau
    width, height = Fr(a1) - Fr(a0), Fr(b1) - Fr(b0)
    try:
        abbox, (nx, ny), tiles = g.get_affected_level_tiles(rect, z)
        tiles = list(tiles)
    except mgrid.GridError:
        if width <= 2 * band or height <= 2 * band:
            st_.notes['thin-rect-GridError'] += 1
            return None
        return core.Violation(sig('affected/GridError'), 'GridError for a rectangle %r px wide, %r px high'
                              % (float(width / res), float(height / res)), case)
    if len(tiles) != nx * ny or nx < 1 or ny < 1:
        return core.Violation(sig('affected/count'), 'reported size %r but %d entries' % ((nx, ny), len(tiles)), case)
    sx, sy = ref.span(z)
    # column / row ranges from the reported bbox (must be a union of whole tiles)
    c0 = ref.col_of_edge(abbox[0], z)
    c1 = ref.col_of_edge(abbox[2], z)
    r_s = (Fr(abbox[1]) - ref.bbox[1]) / sy if not ref.ul else (ref.bbox[3] - Fr(abbox[3])) / sy
    r_n = (Fr(abbox[3]) - ref.bbox[1]) / sy if not ref.ul else (ref.bbox[3] - Fr(abbox[1])) / sy
    # r_s..r_n is the row range in the grid's own numbering direction (low index first)
    vals = [c0, c1, r_s, r_n]
    ints = [round(v) for v in vals]
    for v, i, span in zip(vals, ints, (sx, sx, sy, sy)):
        if abs(v - i) * span > tau:
            return core.Violation(sig('affected/bbox-not-tile-aligned'),
                                  'reported bbox %r is not a union of tiles' % (abbox,), case)
    X0, X1, Y0, Y1 = ints[0], ints[1] - 1, ints[2], ints[3] - 1
    if X1 - X0 + 1 != nx or Y1 - Y0 + 1 != ny:
        return core.Violation(sig('affected/bbox-size-mismatch'),
                              'reported bbox spans %dx%d tiles, reported size %r' % (X1 - X0 + 1, Y1 - Y0 + 1, (nx, ny)), case)
    # entries: row by row from the top (north), west -> east; None exactly for out-of-grid positions
    rows = list(range(Y0, Y1 + 1)) if ref.ul else list(range(Y1, Y0 - 1, -1))
    k = 0
    for y in rows:
        for x in range(X0, X1 + 1):
            exp = (x, y, z) if ref.in_grid(x, y, z) else None
            if tiles[k] != exp:
                return core.Violation(sig('affected/order-or-none'),
                                      'entry %d is %r, expected %r (rows from the north, west to east)' % (k, tiles[k], exp), case)
            k += 1
    # completeness and no merely-touching tile, per axis (the listing is a product of ranges)
    def ax(lo, hi, first, last, origin_lo, span, flipped, name):
        # overlap of tile index i with [lo, hi] along this axis
        def ov(i):
            if flipped:
                t_hi = ref.bbox[3] - i * span
                t_lo = t_hi - span
            else:
                t_lo = origin_lo + i * span
                t_hi = t_lo + span
            return axis_overlap(t_lo, t_hi, Fr(lo), Fr(hi))
        for i in (first, last):
            if ov(i) <= tau:
                return core.Violation(sig('affected/touching-tile-listed'),
                                      '%s index %d is listed but overlaps the rectangle by %.3g px' % (name, i, float(ov(i) / res)), case)
        for i in (first - 1, last + 1):
            if ov(i) > band:
                return core.Violation(sig('affected/tile-missing'),
                                      '%s index %d overlaps the rectangle by %.3g px but is not listed' % (name, i, float(ov(i) / res)), case)
        return None
    v = ax(a0, a1, X0, X1, ref.bbox[0], sx, False, 'column')
    if v:
        return v
    v = ax(b0, b1, Y0, Y1, ref.bbox[1], sy, ref.ul, 'row')
    if v:
        return v
    return None


def check_level(g, ref, thr, q, case, st_):
    res = ref.res
    got = g.closest_level(q)
    s = Fr(g.stretch_factor)
    Q = Fr(q)
    if thr:
        # documented threshold semantics, judged only inside an interval that has a threshold
        for idx, T in thr.items():
            if res[idx] <= Q <= res[idx - 1]:
                T = Fr(T)
                if abs(Q - T) <= 4 * ulp_of(q, float(T)):
                    st_.notes['level-boundary-slack'] += 1
                    return None
                exp = idx - 1 if Q > T else idx
                if got != exp:
                    return core.Violation(sig('closest_level/threshold'),
                                          'closest_level(%r) = %d, expected %d (threshold %r between levels %d and %d)'
                                          % (q, got, exp, float(T), idx - 1, idx), case)
                return None
        st_.notes['threshold-grid-outside-interval'] += 1
        return None
    exp = closest_level_spec(res, Q, s)
    if got == exp:
        return None
    # the only inexact step of the decision is the float product q*stretch (one rounding): accept the
    # answer of the specification evaluated with the exact and with the rounded product, nothing else
    alt = closest_level_spec(res, Q, s, upper=Fr(q * g.stretch_factor))
    if got == alt:
        st_.notes['level-boundary-slack'] += 1
        return None
    return core.Violation(sig('closest_level/wrong'),
                          'closest_level(%r) = %d, expected %d (resolutions %r, stretch %r)'
                          % (q, got, exp, [float(r) for r in res], g.stretch_factor), case)


def check_sizes(g, ref, z, case):
    gx, gy = g.grid_sizes[z]
    res = ref.res[z]
    sx, sy = ref.span(z)
    w = ref.bbox[2] - ref.bbox[0]
    h = ref.bbox[3] - ref.bbox[1]
    tau = tau_for(ref, z)
    for n, span, ext, name in ((gx, sx, w, 'columns'), (gy, sy, h, 'rows')):
        if n < 1:
            return core.Violation(sig('grid_sizes/zero'), '%s = %d' % (name, n), case)
        # slack: one pixel (documented: tiles may overlap the bbox / partial pixel dropped) + float noise
        noise = max(tau, ext / 10 ** 12)
        if n * span < ext - res - noise:
            return core.Violation(sig('grid_sizes/uncovered'), '%d %s cover %r of %r' % (n, name, float(n * span), float(ext)), case)
        if n > 1 and (n - 1) * span >= ext + noise:
            return core.Violation(sig('grid_sizes/empty-row-or-column'), '%d %s but %d already cover %r' % (n, name, n - 1, float(ext)), case)
    # limit_tile <=> inside grid_sizes
    for x, y in ((0, 0), (gx - 1, gy - 1), (gx, 0), (0, gy), (-1, 0), (0, -1), (gx - 1, 0), (0, gy - 1)):
        inside = 0 <= x < gx and 0 <= y < gy
        lim = g.limit_tile((x, y, z))
        if (lim is not None) != inside or (inside and tuple(lim) != (x, y, z)):
            return core.Violation(sig('limit_tile'), 'limit_tile(%r) = %r with grid size %r' % ((x, y, z), lim, (gx, gy)), case)
    for zz in (-1, len(ref.res)):
        if g.limit_tile((0, 0, zz)) is not None:
            return core.Violation(sig('limit_tile/level'), 'limit_tile accepts level %d' % zz, case)
    return None


def check_flip(g, ref, d, z, tx, ty, case, st_):
    gx, gy = g.grid_sizes[z]
    x, y = tx % gx, ty % gy
    f = g.flip_tile_coord((x, y, z))
    if g.flip_tile_coord(f) != (x, y, z):
        return core.Violation(sig('flip/not-involution'), 'flip(flip(%r)) = %r' % ((x, y, z), g.flip_tile_coord(f)), case)
    if f[0] != x or f[2] != z or not (0 <= f[1] < gy):
        return core.Violation(sig('flip/out-of-grid'), 'flip(%r) = %r' % ((x, y, z), f), case)
    other = 'ul' if not ref.ul else 'll'
    if g.supports_access_with_origin(other):
        st_.classes['flip-offered'] += 1
        d2 = dict(d)
        d2['origin'] = other
        g2, _ = build_grid(d2)
        ref2 = RefGrid.from_grid(g2)
        r1 = ref.tile_rect(x, y, z)
        r2 = ref2.tile_rect(f[0], f[1], z)
        lim = ref.res[z] / 100 + tau_for(ref, z)
        if any(abs(p - q) > lim for p, q in zip(r1, r2)):
            return core.Violation(sig('flip/rectangle-changed'),
                                  'origin %s offered, but tile %r covers %r while its flipped twin %r covers %r'
                                  % (other, (x, y, z), [float(v) for v in r1], f, [float(v) for v in r2]), case)
        o = g.origin_tile(z, other)
        if o != g.flip_tile_coord((0, 0, z)):
            return core.Violation(sig('flip/origin_tile'), 'origin_tile(%d, %s) = %r' % (z, other, o), case)
    else:
        st_.classes['flip-not-offered'] += 1
    if not g.supports_access_with_origin(g.origin):
        return core.Violation(sig('flip/own-origin'), 'grid does not support its own origin', case)
    return None


def check_case(case, st_):
    d, q = case['grid'], case['query']
    try:
        g, thr = build_grid(d)
    except (ValueError, AssertionError, ZeroDivisionError, IndexError, OverflowError):
        st_.excluded['grid-rejected-by-config'] += 1
        return None
    if not meaningful(g):
        st_.excluded['outside-meaningful-range'] += 1
        return None
    ref = RefGrid.from_grid(g)
    z = q['level_pick'] % g.levels
    if d['mode'] == 'deep' and q['level_pick'] % 3:
        z = g.levels - 1 - (q['level_pick'] % 4) % g.levels   # mostly the finest levels of deep pyramids
    kind = q['kind']
    gx, gy = g.grid_sizes[z]
    nt = set()
    if ref.ul:
        nt.add('ul')
    if d['tile_size'][0] != d['tile_size'][1]:
        nt.add('nonsquare')
    sx, sy = ref.span(z)
    if ((ref.bbox[2] - ref.bbox[0]) / sx).denominator != 1 or ((ref.bbox[3] - ref.bbox[1]) / sy).denominator != 1:
        nt.add('bbox-not-multiple')
    classes = ['kind:' + kind, 'mode:' + d['mode'], 'origin:' + ('ul' if ref.ul else 'll')]
    v = None
    if kind == 'point':
        def scale(spec, n):
            idx, k, off = spec
            return (idx if idx < 4 else (idx * n) // 8, k, off)
        px = place(ref, z, 0, scale(q['px'], gx), g)
        py = place(ref, z, 1, scale(q['py'], gy), g)
        if q['px'][1] != 'frac' or q['py'][1] != 'frac':
            nt.add('near-edge')
        v = check_point(g, ref, z, px, py, case, st_)
    elif kind == 'rect':
        def scale(spec, n):
            idx, k, off = spec
            return (idx if idx < 4 else (idx * n) // 8, k, off)
        xs = sorted([place(ref, z, 0, scale(q['a'], gx), g), place(ref, z, 0, scale(q['c'], gx), g)])
        ys = sorted([place(ref, z, 1, scale(q['b'], gy), g), place(ref, z, 1, scale(q['d'], gy), g)])
        if q.get('thin'):
            xs[1] = float(Fr(xs[0]) + Fr(q['thin']) * ref.res[z])
            classes.append('thin-rect')
        minw = float(ref.res[z]) * 0.01
        if xs[1] - xs[0] < minw or ys[1] - ys[0] < minw:
            st_.excluded['degenerate-rect'] += 1
            return None
        if (xs[1] - xs[0]) / float(sx) > 300 or (ys[1] - ys[0]) / float(sy) > 300:
            st_.excluded['rect-over-300-tiles'] += 1
            return None
        if any(s[1] != 'frac' for s in (q['a'], q['b'], q['c'], q['d'])):
            nt.add('near-edge')
        v = check_rect(g, ref, z, (xs[0], ys[0], xs[1], ys[1]), case, st_)
    elif kind == 'level':
        res = [float(r) for r in ref.res]
        rel = q['rel']
        s = g.stretch_factor
        base = res[z]
        if rel == 'at':
            qq = base
        elif rel == 'stretch':
            qq = base / s
        elif rel == 'between' and z + 1 < len(res):
            qq = (base + res[z + 1]) / 2
        elif rel == 'threshold' and thr:
            qq = sorted(thr.values())[q['level_pick'] % len(thr)]
        else:
            qq = base * q['f']
        n = q['nudge']
        if isinstance(n, int):
            for _ in range(abs(n)):
                qq = math.nextafter(qq, math.inf if n > 0 else 0.0)
        else:
            qq = qq * (1 + n)
        if rel in ('at', 'stretch', 'threshold') and abs(n) <= 1e-2:
            nt.add('near-level-boundary')
        if thr:
            classes.append('threshold_res')
        v = check_level(g, ref, thr, qq, case, st_)
    elif kind == 'flip':
        v = check_flip(g, ref, d, z, q['tx'], q['ty'], case, st_)
        nt.add('flip')
    else:
        v = check_sizes(g, ref, z, case)
        if v is None:
            v = check_tile_bbox(g, ref, gx - 1, gy - 1, z, case)
    st_.case(key=case, nontrivial=bool(nt), classes=classes + ['nt:' + n for n in nt], sample=case)
    return v


# ------------------------------------------------------------------------------------------------
# bounded-exhaustive part: all rectangles on the edge lattice of tiny grids


def tiny_grids(tier):
    out = []
    tile_sizes = [(2, 2), (3, 2), (4, 4)]
    extents = [(8.0, 8.0), (9.0, 7.0), (10.0, 4.0), (7.5, 7.5)] if tier == 'quick' else \
        [(8.0, 8.0), (9.0, 7.0), (10.0, 4.0), (7.5, 7.5), (16.0, 12.0), (5.0, 11.0), (0.3, 0.3)]
    for ts in tile_sizes:
        for ext in extents:
            for origin in ('ll', 'ul'):
                for x0 in (0.0, -3.7):
                    out.append({'bbox': (x0, x0 / 2, x0 + ext[0], x0 / 2 + ext[1]), 'tile_size': ts,
                                'origin': origin, 'mode': 'f2', 'num_levels': 3, 'stretch_factor': 1.15,
                                'thresholds': []})
    return out


LATTICE_PX = [0.0, 0.05, -0.05, 0.15, -0.15]


def exhaustive_shard(shard, nshards, seed, tier):
    st_ = core.Stats()
    grids = tiny_grids(tier)
    for gi, d in enumerate(grids):
        if gi % nshards != shard:
            continue
        g, _ = build_grid(d)
        ref = RefGrid.from_grid(g)
        for z in range(g.levels):
            gx, gy = g.grid_sizes[z]
            if gx > 3 or gy > 3:
                if tier == 'quick' or gx > 5 or gy > 5:
                    continue
            xs = sorted(set(float(ref.bbox[0] + i * ref.span(z)[0] + Fr(o) * ref.res[z])
                            for i in range(0, gx + 1) for o in LATTICE_PX))
            ys = sorted(set(float(ref.bbox[1] + i * ref.span(z)[1] + Fr(o) * ref.res[z])
                            for i in range(0, gy + 1) for o in LATTICE_PX))
            for a0, a1 in itertools.combinations(xs, 2):
                for b0, b1 in itertools.combinations(ys, 2):
                    case = {'grid': d, 'query': {'kind': 'lattice-rect', 'level': z, 'rect': (a0, b0, a1, b1)}}
                    v = check_rect(g, ref, z, (a0, b0, a1, b1), case, st_)
                    st_.evaluations += 1
                    if v is not None:
                        st_.violations.append(v)
                        return st_
            # every tile of the level: exact bbox, point ownership at the centre and corners
            for x in range(gx):
                for y in range(gy):
                    case = {'grid': d, 'query': {'kind': 'lattice-tile', 'tile': (x, y, z)}}
                    v = check_tile_bbox(g, ref, x, y, z, case)
                    r = ref.tile_rect(x, y, z)
                    for px in (float(r[0]), float((r[0] + r[2]) / 2), float(r[2])):
                        for py in (float(r[1]), float((r[1] + r[3]) / 2), float(r[3])):
                            v = v or check_point(g, ref, z, px, py, case, st_)
                    st_.evaluations += 1
                    if v is not None:
                        st_.violations.append(v)
                        return st_
            st_.nontrivial.add(core.case_hash(('lattice', gi, z)))
        st_.classes['exhaustive-tiny-grid'] += 1
    return st_


def random_shard(shard, nshards, seed, tier):
    st_ = core.Stats()
    n = (40000 if tier == 'quick' else 1200000) // nshards
    core.hyp_search(cases(), check_case, st_, max_examples=n, seed=seed)
    return st_


def run(tier, seed, stats):
    stats.merge(core.parallel(random_shard, 16, seed, tier))
    ex = core.parallel(exhaustive_shard, 16, seed, tier)
    stats.extra['exhaustive_lattice_evaluations'] = ex.evaluations
    stats.extra['exhaustive_scope'] = ('all rectangles with corners on {tile edge, edge +-0.05 px, edge +-0.15 px} '
                                       'of every level with <= 3x3 tiles (thorough: 5x5) of %d tiny grids'
                                       % len(tiny_grids(tier)))
    stats.merge(ex)


def replay(case, stats):
    if case['query']['kind'] == 'lattice-rect':
        g, _ = build_grid(case['grid'])
        ref = RefGrid.from_grid(g)
        v = check_rect(g, ref, case['query']['level'], tuple(case['query']['rect']), case, stats)
    elif case['query']['kind'] == 'lattice-tile':
        g, _ = build_grid(case['grid'])
        ref = RefGrid.from_grid(g)
        v = check_tile_bbox(g, ref, *case['query']['tile'], case=case)
    else:
        case = dict(case)
        case['grid'] = dict(case['grid'])
        case['grid']['bbox'] = tuple(case['grid']['bbox'])
        case['grid']['tile_size'] = tuple(case['grid']['tile_size'])
        case['grid']['thresholds'] = [tuple(t) for t in case['grid'].get('thresholds') or []]
        q = dict(case['query'])
        for k in ('px', 'py', 'a', 'b', 'c', 'd'):
            if k in q:
                q[k] = tuple(q[k])
        case['query'] = q
        v = check_case(case, stats)
    return [v] if v else []
