"""C07 - File locks are exclusive and semaphores bounded under every interleaving.

Contenders are real threads running the REAL mapproxy.util.lock.FileLock / SemLock and
mapproxy.util.ext.lockfile.LockFile code under the deterministic scheduler (vcheck/detsched.py).
Yield points sit in front of every file-system call of the lock code (open, exists, chmod, flock, stat,
close, remove, the implicit close when the lock object is dropped) and in sleep; time is virtual and
random.randint is a recorded data decision.  flock() is per open file description, so threads that each
open() the lock file contend exactly like separate processes do.  See DESIGN.md section 8.
"""
import builtins
import contextlib
import errno
import fcntl as real_fcntl
import os
import shutil
import tempfile

from hypothesis import strategies as st

from .. import core
from .. import detsched

PROPERTY = 'C07'
LEVEL = 'exploration'
RULE = ('A case = lock variant (FileLock remove_on_unlock=True / False, SemLock n=1..3; with or without '
        'file_permissions) x 2-4 contenders x 1-3 lock/critical-section/unlock cycles each (fresh lock object per '
        'cycle dropped after unlock, or ONE object per contender kept alive across its cycles and until after the '
        'final re-acquisition probe) x injected fault: os.remove in unlock() refused with EPERM while the file stays, '
        'for a drawn subset of (contender, cycle) x polling timeout of 1-5 steps x one schedule = the list of all scheduler '
        'decisions at the file-system-call yield points (exists/open/chmod/flock/stat/close/remove/handle-drop/'
        'sleep) plus the randint draws. Schedules come from (i) a stateless DFS that executes EVERY schedule with at '
        'most k preemptions for the fixed small configurations listed in coverage.exhaustive_scope (2 contenders x 2 '
        'cycles, 3 contenders x 1 cycle, ...) and (ii) Hypothesis (sparse preemption lists, shrunk towards no '
        'preemption). A case is non-trivial when at least one lock attempt failed (real contention) and another '
        'thread ran between some open() and the flock() on that handle; distinct = distinct (configuration, '
        'decision list). Runs that enter the construct of an open known finding are cut there and counted in '
        'excluded_by_construction.')
ASSUMPTIONS = [
    'schedule granularity = the file-system calls of lock.py / lockfile.py (property wording); code between two calls is atomic',
    'local-file flock semantics of the running kernel (real open/flock/unlink in a mkdtemp dir, on tmpfs when available); NFS/lockd not modelled',
    'throw-away contenders drop the lock object right after unlock() (as every `with FileLock(...)` caller does); the implicit '
    'close of a handle that unlock() left open is a separate step; keep-alive contenders reuse one object and never drop it',
    'injected fault model: unlink refused with EPERM although the file exists (sticky / read-only lock directory)',
    'virtual clock: a sleeping waiter may be resumed at any time and the clock then jumps to its wake-up time; timeouts are 1-5 polling steps',
    'a failed attempt counts as justified when, for every lock file (slot) of the lock, some other contender held a flock on a '
    'file of that slot - and had not yet returned from unlock() - at some instant of the attempt (weakest reading of "the lock was unavailable"; the stricter reading '
    '"all n slots held at one instant" is only counted, class f:sem-timeout-with-attempt-never-seeing-all-slots-held-at-once)',
    'lock() may only return (acquired) or raise LockTimeout; any other exception counts as failing to take the lock',
    'liveness clauses are checked as: no deadlock under the scheduler, and after all contenders finished all n slots can be taken at once',
    'cleanup_lockdir deleting held lock files is outside the model',
]

STEP = 1.0
SIG_STALE = 'C07/two-holders/stale-inode-after-remove'
SIG_CHMOD = 'C07/lock-raised/FileNotFoundError@chmod'

_MISSING = object()


def _mods():
    from mapproxy.util import lock as mlock
    from mapproxy.util.ext import lockfile as mlf
    return mlock, mlf


# ------------------------------------------------------------------------------------------------
# instrumented world

class _Handle(object):
    """State of one open file description of a lock file (kept by the World; holds the real file)."""

    def __init__(self, world, real, path, owner, hid):
        self._world = world
        self._real = real
        self.path = path
        self.owner = owner
        self.hid = hid
        self.fd = real.fileno()
        st_ = os.fstat(self.fd)
        self.ino = (st_.st_dev, st_.st_ino)
        self.locked = None
        self.closed = False

    def finish(self, via):
        if self.closed:
            return
        self.closed = True
        w = self._world
        w.by_fd.pop(self.fd, None)
        try:
            self._real.close()
        finally:
            self.locked = None
            w.sched.log('closed', hid=self.hid, via=via)


class _FileProxy(object):
    """What LockFile gets from open(): close() is a yield point; when the object is dropped without close()
    (FileLock.unlock with remove_on_unlock=True) the descriptor is closed at that moment, as CPython does."""

    def __init__(self, handle):
        self._h = handle

    @property
    def name(self):
        return self._h._real.name

    def fileno(self):
        return self._h._real.fileno()

    def write(self, data):
        return self._h._real.write(data)

    def truncate(self, *a):
        return self._h._real.truncate(*a)

    def flush(self):
        return self._h._real.flush()

    def seek(self, *a):
        return self._h._real.seek(*a)

    def close(self):
        if self._h.closed:
            return
        self._h._world.sched.point('close')
        self._h.finish('close')

    def __getattr__(self, name):
        if name == '_h':
            raise AttributeError(name)
        return getattr(self._h._real, name)

    def __del__(self):
        try:
            self._h.finish('drop')
        except Exception:
            pass


class _Namespace(object):
    """Module stand-in: attributes fall through to the real module unless overridden."""

    def __init__(self, real, **over):
        self.__dict__['_real'] = real
        self.__dict__.update(over)

    def __getattr__(self, name):
        return getattr(self.__dict__['_real'], name)


class BlockedForever(Exception):
    pass


class World(object):
    def __init__(self, sched, cfg, lockdir, exclude):
        self.sched = sched
        self.cfg = cfg
        self.dir = lockdir
        self.path = os.path.join(lockdir, 'lock.lck')
        self.exclude = exclude          # set of open known-finding signatures to cut runs at
        self.handles = []
        self.by_fd = {}
        self.last_open = {}             # thread id -> most recently opened handle
        self.in_cs = {}                 # thread id -> handle
        self.violations = []            # (signature, message)
        self.stale_seen = False
        self.excluded = None
        self.max_in_cs = 0
        self.cycle = {}                 # thread id -> current cycle number
        self.kept = {}                  # thread id -> lock object kept alive until after the final probe
        self.faults = set((int(t), int(c)) for t, c in cfg.get('faults') or [])
        if cfg['kind'] == 'sem':
            self.slots = [self.path + str(i) for i in range(cfg['n'])]
            self.limit = cfg['n']
        else:
            self.slots = [self.path]
            self.limit = 1

    # -- helpers
    def tid(self):
        s, tid = detsched.current()
        return tid if s is self.sched else -1

    def names(self, h):
        try:
            st_ = os.stat(h.path)
        except OSError:
            return False
        return (st_.st_dev, st_.st_ino) == h.ino

    def violation(self, sig, msg):
        self.violations.append((sig, msg))

    def make_lock(self, timeout=None):
        mlock, _ = _mods()
        cfg = self.cfg
        timeout = cfg['timeout_steps'] * STEP if timeout is None else timeout
        if cfg['kind'] == 'sem':
            return mlock.SemLock(self.path, cfg['n'], timeout=timeout, step=STEP, file_permissions=cfg.get('perm'))
        return mlock.FileLock(self.path, timeout=timeout, step=STEP, remove_on_unlock=bool(cfg['remove']),
                              file_permissions=cfg.get('perm'))

    # -- patched operations (each: yield point, then the real call, then a trace event - one atomic step)
    def open(self, path, mode='r', *a, **kw):
        if not str(path).startswith(self.dir):
            return builtins.open(path, mode, *a, **kw)
        self.sched.point('open')
        existed = os.path.exists(path)
        real = builtins.open(path, mode, *a, **kw)
        h = _Handle(self, real, path, self.tid(), len(self.handles))
        self.handles.append(h)
        self.by_fd[h.fd] = h
        self.last_open[h.owner] = h
        self.sched.log('open', hid=h.hid, slot=path, created=not existed)
        return _FileProxy(h)

    def flock(self, fd, flags):
        h = self.by_fd.get(fd)
        if h is None:
            raise detsched.SchedulerError('flock on an unknown descriptor %r' % (fd,))
        self.sched.point('flock')
        if flags & real_fcntl.LOCK_UN:
            real_fcntl.flock(fd, flags)
            h.locked = None
            self.sched.log('flock-un', hid=h.hid)
            return
        while True:
            try:
                real_fcntl.flock(fd, flags | real_fcntl.LOCK_NB)
            except OSError as e:
                if e.errno not in (errno.EWOULDBLOCK, errno.EAGAIN, errno.EACCES):
                    self.sched.log('flock-err', hid=h.hid, errno=e.errno)
                    raise
                others = [o for o in self.handles if o is not h and not o.closed and o.locked and o.ino == h.ino]
                if not others:
                    raise detsched.SchedulerError('kernel refused a flock that the model thinks is free')
                self.sched.log('flock-fail', hid=h.hid, slot=h.path, holders=[o.owner for o in others])
                if flags & real_fcntl.LOCK_NB:
                    raise
                # blocking flock requested by the code under test: modelled as "enabled when free"
                if self.tid() < 0:
                    # the final single-threaded re-acquisition: nobody is left who could release
                    raise BlockedForever('flock() on %s blocks although nobody else is running'
                                         % os.path.basename(h.path))
                self.sched.point('flock-blocked', enabled=lambda: not any(
                    (not o.closed) and o.locked and o.ino == h.ino and o is not h for o in self.handles))
                continue
            h.locked = 'sh' if flags & real_fcntl.LOCK_SH else 'ex'
            self.sched.log('flock-ok', hid=h.hid, slot=h.path, stale=not self.names(h))
            return

    def exists(self, path):
        self.sched.point('exists')
        r = os.path.exists(path)
        self.sched.log('exists', result=r)
        return r

    def chmod(self, path, mode, *a, **kw):
        self.sched.point('chmod')
        try:
            os.chmod(path, mode, *a, **kw)
        except FileNotFoundError:
            self.sched.log('chmod-enoent')
            if SIG_CHMOD in self.exclude:
                self.excluded = 'chmod-on-removed-path (known ' + SIG_CHMOD + ')'
                self.sched.stop('excluded')
            raise
        self.sched.log('chmod')

    def fchmod(self, fd, mode):
        os.fchmod(fd, mode)
        self.sched.log('fchmod')

    def stat(self, path, *a, **kw):
        self.sched.point('stat')
        try:
            r = os.stat(path, *a, **kw)
        except OSError:
            self.sched.log('stat', result=None)
            raise
        self.sched.log('stat', result=r.st_ino)
        return r

    def remove(self, path, *a, **kw):
        self.sched.point('remove')
        tid = self.tid()
        if (tid, self.cycle.get(tid)) in self.faults and os.path.exists(path):
            # injected fault: the unlink is refused although the file exists (sticky / read-only lock directory,
            # file owned by another user); the file stays
            self.sched.log('remove-eperm', slot=path)
            raise PermissionError(errno.EPERM, 'Operation not permitted (injected)', path)
        try:
            os.remove(path, *a, **kw)
        except OSError:
            self.sched.log('remove-failed')
            raise
        self.sched.log('removed', slot=path)

    def vtime(self):
        t = self.sched.now()
        self.sched.log('time', t=t)
        return t

    def vsleep(self, d):
        self.sched.log('sleep', d=d)
        self.sched.sleep(d)
        self.sched.log('woke', t=self.sched.now())

    def randint(self, a, b):
        v = a + self.sched.choice(b - a + 1, 'randint')
        self.sched.log('randint', v=v)
        return v

    # -- critical section bookkeeping (oracle clause 1, evaluated at every entry)
    def cs_enter(self, tid, cycle):
        h = self.last_open.get(tid)
        stale = bool(h is not None and not h.closed and not self.names(h))
        self.sched.log('cs-enter', cycle=cycle, hid=h.hid if h is not None else None, stale=stale)
        if stale:
            self.stale_seen = True
            if SIG_STALE in self.exclude:
                self.excluded = 'entered-with-flock-on-unlinked-inode (known ' + SIG_STALE + ')'
                self.sched.stop('excluded')
        self.in_cs[tid] = h
        self.max_in_cs = max(self.max_in_cs, len(self.in_cs))
        if len(self.in_cs) > self.limit:
            if self.stale_seen:
                sig = SIG_STALE
            else:
                sig = 'C07/too-many-holders/' + variant_name(self.cfg)
            self.violation(sig, '%d contenders (%s) inside the locked section of a lock that admits %d (%s)'
                           % (len(self.in_cs), sorted(self.in_cs), self.limit, variant_name(self.cfg)))
            self.sched.stop('violation')

    def cs_exit(self, tid):
        self.in_cs.pop(tid, None)
        self.sched.log('cs-exit')


@contextlib.contextmanager
def patched(world):
    mlock, mlf = _mods()
    saved = []

    def setp(mod, name, val):
        saved.append((mod, name, mod.__dict__.get(name, _MISSING)))
        setattr(mod, name, val)

    os_path = _Namespace(os.path, exists=world.exists)
    try:
        setp(mlf, 'open', world.open)
        setp(mlf, 'fcntl', _Namespace(real_fcntl, flock=world.flock))
        setp(mlf, 'os', _Namespace(os, chmod=world.chmod, fchmod=world.fchmod, stat=world.stat, remove=world.remove,
                                   unlink=world.remove, path=os_path))
        setp(mlock, 'os', _Namespace(os, remove=world.remove, unlink=world.remove, stat=world.stat,
                                     chmod=world.chmod, path=os_path))
        import time as real_time
        import random as real_random
        setp(mlock, 'time', _Namespace(real_time, time=world.vtime, sleep=world.vsleep))
        setp(mlock, 'random', _Namespace(real_random, randint=world.randint))
        yield
    finally:
        for mod, name, old in reversed(saved):
            if old is _MISSING:
                try:
                    delattr(mod, name)
                except AttributeError:
                    pass
            else:
                setattr(mod, name, old)


def variant_name(cfg):
    if cfg['kind'] == 'sem':
        return 'sem-n%d' % cfg['n']
    return 'file-remove' if cfg['remove'] else 'file-keep'


def contender(world, ncycles, keep=False):
    """`keep`: the contender uses ONE FileLock/SemLock object for all its cycles and keeps it alive after it has
    finished (until after the final re-acquisition probe); otherwise a throw-away object per cycle, dropped right
    after unlock() like `with FileLock(...)` callers do."""
    mlock, _ = _mods()
    sched = world.sched
    tid = world.tid()
    lk = None
    for c in range(ncycles):
        world.cycle[tid] = c
        if lk is None:
            lk = world.make_lock()
            if keep:
                world.kept[tid] = lk
        sched.log('lock-call', cycle=c)
        t0 = sched.now()
        try:
            lk.lock()
        except mlock.LockTimeout:
            sched.log('timeout', cycle=c, waited=sched.now() - t0)
            if not keep:
                lk = None
            continue
        except Exception as e:
            label = sched.threads[tid].label
            sched.log('raised', cycle=c, exc=type(e).__name__, op=label)
            world.violation('C07/lock-raised/%s@%s' % (type(e).__name__, label),
                            'lock() raised %s: %s (last file-system call: %s) instead of returning or LockTimeout'
                            % (type(e).__name__, e, label))
            e = None
            if not keep:
                lk = None
            continue
        world.cs_enter(tid, c)
        sched.point('cs')
        world.cs_exit(tid)
        try:
            lk.unlock()
        except Exception as e:
            label = sched.threads[tid].label
            sched.log('raised', cycle=c, exc=type(e).__name__, op=label)
            world.violation('C07/unlock-raised/%s@%s' % (type(e).__name__, label),
                            'unlock() raised %s: %s' % (type(e).__name__, e))
        sched.log('unlock-done', cycle=c)
        if not keep:
            if any(h.owner == tid and not h.closed for h in world.handles):
                sched.point('drop')
            lk = None
        sched.log('released', cycle=c)


# ------------------------------------------------------------------------------------------------
# oracle over the finished trace

class Result(object):
    __slots__ = ('outcome', 'violations', 'choices', 'preemptions', 'features', 'excluded', 'blocked')


def analyse(world, outcome, fresh_error):
    cfg = world.cfg
    sched = world.sched
    trace = sched.trace
    vio = list(world.violations)
    feats = set()
    # flock hold intervals per handle; a lock whose holder's unlock() has returned is not "held" any more,
    # whatever happens to the handle afterwards
    holds = {}
    for seq, tid, kind, d in trace:
        if kind == 'flock-ok':
            holds[d['hid']] = [seq, len(trace), tid, d['slot'], True]
            if d['stale']:
                feats.add('flock-ok-on-unlinked-inode')
        elif kind == 'closed' and d['hid'] in holds:
            if holds[d['hid']][4]:
                holds[d['hid']][1] = seq
                holds[d['hid']][4] = False
        elif kind == 'unlock-done':
            for hv in holds.values():
                if hv[2] == tid and hv[4]:
                    hv[1] = seq
                    hv[4] = False
                    feats.add('handle-open-after-unlock')
        elif kind == 'flock-fail':
            feats.add('contention')
        elif kind == 'remove-failed':
            feats.add('remove-failed')
        elif kind == 'remove-eperm':
            feats.add('remove-eperm')
        elif kind == 'chmod-enoent':
            feats.add('chmod-enoent')
    intervals = list(holds.values())

    def held_by_other(slot, tid, a, b):
        return any(s == slot and o != tid and lo <= b and hi >= a for lo, hi, o, s, _ in intervals)

    # attempts per lock() call
    per_thread = {}
    for ev in trace:
        per_thread.setdefault(ev[1], []).append(ev)
    for tid, evs in per_thread.items():
        if tid < 0:
            continue
        call = None
        for seq, _, kind, d in evs:
            if kind == 'lock-call':
                call = {'start': seq, 'attempts': [[seq, None]], 't0': None}
            elif call is None:
                continue
            elif kind == 'sleep':
                call['attempts'][-1][1] = seq
            elif kind == 'woke':
                call['attempts'].append([seq, None])
            elif kind in ('cs-enter', 'timeout', 'raised'):
                call['attempts'][-1][1] = seq
                failed = call['attempts'][:-1] if kind == 'cs-enter' else call['attempts']
                if kind == 'raised':
                    failed = call['attempts'][:-1]
                unjust = [(a, b) for a, b in failed
                          if not all(held_by_other(slot, tid, a, b) for slot in world.slots)]
                if failed:
                    feats.add('failed-attempt')
                if len(failed) > 1 and kind == 'cs-enter':
                    feats.add('acquired-after-retries')
                if kind == 'timeout':
                    feats.add('timeout')
                    if unjust:
                        a, b = unjust[0]
                        free = [slot for slot in world.slots if not held_by_other(slot, tid, a, b)]
                        vio.append(('C07/timeout/attempt-failed-on-free-lock',
                                    'contender %d got LockTimeout although during its attempt (trace %d..%d) no other '
                                    'contender held %s at any instant' % (tid, a, b, [os.path.basename(f) for f in free])))
                    elif d['waited'] < cfg['timeout_steps'] * STEP:
                        vio.append(('C07/timeout/early', 'contender %d got LockTimeout after %.3g s, timeout is %.3g s'
                                    % (tid, d['waited'], cfg['timeout_steps'] * STEP)))
                    else:
                        feats.add('timeout-justified')
                        if len(world.slots) > 1:
                            # stricter reading, statistics only: was the semaphore ever full during each attempt?
                            for a, b in failed:
                                if not any(all(held_by_other(slot, tid, q, q) for slot in world.slots)
                                           for q in range(a, b + 1)):
                                    feats.add('sem-timeout-with-attempt-never-seeing-all-slots-held-at-once')
                elif unjust:
                    feats.add('failed-attempt-on-free-lock(no-timeout)')
                call = None
    # another thread ran between an open and the flock on that handle
    opened = {}
    for seq, tid, kind, d in trace:
        if kind == 'open':
            opened[d['hid']] = seq
        elif kind in ('flock-ok', 'flock-fail') and d['hid'] in opened:
            a = opened.pop(d['hid'])
            if any(t2 != tid and t2 >= 0 for _, t2, _, _ in trace[a + 1:seq]):
                feats.add('switch-between-open-and-flock')
                if any(k2 == 'removed' and t2 != tid for _, t2, k2, _ in trace[a + 1:seq]):
                    feats.add('path-removed-between-open-and-flock')
    if world.max_in_cs > 1:
        feats.add('concurrent-holders-%d' % world.max_in_cs)
    if outcome == 'deadlock':
        vio.append(('C07/deadlock', 'no contender can make progress: %r' % (sched.blocked,)))
    if fresh_error:
        vio.append(('C07/not-reacquirable', fresh_error))
    r = Result()
    r.outcome = outcome
    r.violations = vio
    r.choices = sched.choices()
    r.preemptions = sched.preemptions()
    r.features = feats
    r.excluded = world.excluded
    r.blocked = sched.blocked
    return r


def fresh_attempt(world):
    """Clause 3: after everybody has finished and released, the lock can be taken again (all n slots)."""
    mlock, _ = _mods()
    locks = []
    err = None
    try:
        for _ in range(world.limit):
            lk = world.make_lock(timeout=0)
            try:
                lk.lock()
            except mlock.LockTimeout:
                open_handles = [(h.owner, os.path.basename(h.path), h.locked) for h in world.handles if not h.closed]
                err = ('after all contenders finished a fresh lock attempt (%d of %d) failed; handles still open: %r'
                       % (len(locks) + 1, world.limit, open_handles))
                break
            except BlockedForever as e:
                err = ('after all contenders finished a fresh lock attempt (%d of %d) blocks for ever: %s'
                       % (len(locks) + 1, world.limit, e))
                break
            locks.append(lk)
    finally:
        for lk in locks:
            lk.unlock()
        del locks
    return err


def run_case(cfg, chooser, lockdir, exclude=frozenset(), max_steps=3000):
    sched = detsched.Scheduler(chooser, max_steps=max_steps, sleep_mode='eager', wall_timeout=60.0)
    world = World(sched, cfg, lockdir, exclude)
    fresh_error = None
    try:
        with patched(world):
            keep = list(cfg.get('keep') or [])
            try:
                for i, ncycles in enumerate(cfg['cycles']):
                    sched.spawn(contender, args=(world, ncycles, bool(keep[i]) if i < len(keep) else False))
                outcome = sched.run()
                if outcome == 'done' and not world.violations:
                    fresh_error = fresh_attempt(world)
            finally:
                world.kept.clear()
        return analyse(world, outcome, fresh_error)
    finally:
        for h in world.handles:
            h.finish('cleanup')
        world.handles = []
        world.last_open = {}
        world.in_cs = {}
        for name in os.listdir(lockdir):
            try:
                os.remove(os.path.join(lockdir, name))
            except OSError:
                pass


def scratch_dir():
    """mkdtemp, on tmpfs when available (file creation on the disk file system dominates the run time otherwise;
    flock semantics are those of the kernel's local-file implementation either way)."""
    shm = '/dev/shm'
    if os.path.isdir(shm) and os.access(shm, os.W_OK | os.X_OK):
        return tempfile.mkdtemp(prefix='c07-', dir=shm)
    return tempfile.mkdtemp(prefix='c07-')


def public_cfg(cfg):
    return {'kind': cfg['kind'], 'remove': bool(cfg.get('remove')), 'n': int(cfg.get('n') or 1),
            'perm': cfg.get('perm'), 'cycles': list(cfg['cycles']), 'timeout_steps': int(cfg['timeout_steps']),
            'keep': [bool(k) for k in (cfg.get('keep') or [False] * len(cfg['cycles']))],
            'faults': sorted([int(t), int(c)] for t, c in (cfg.get('faults') or []))}


def judge(cfg, res, stats, source):
    """Record one executed schedule; return a Violation or None."""
    cfg = public_cfg(cfg)
    case = dict(cfg, choices=list(res.choices))
    if res.excluded:
        stats.excluded[res.excluded] += 1
        return None
    if res.outcome == 'step-bound':
        stats.inconclusive['step-bound'] += 1
        return None
    feats = res.features
    nontrivial = 'failed-attempt' in feats and 'switch-between-open-and-flock' in feats
    classes = ['src:' + source, 'variant:' + variant_name(cfg), 'contenders:%d' % len(cfg['cycles']),
               'perm:' + ('set' if cfg['perm'] else 'none'), 'preemptions:%d' % min(res.preemptions, 6),
               'objects:' + ('kept-alive' if all(cfg['keep']) else 'mixed' if any(cfg['keep']) else 'throw-away'),
               'remove-faults:%d' % min(len(cfg['faults']), 3),
               'outcome:' + res.outcome.split(':')[0]]
    classes += ['f:' + f for f in sorted(feats)]
    stats.case(key=case, nontrivial=nontrivial, classes=classes, sample=case)
    if res.violations:
        sig, msg = res.violations[0]
        return core.Violation(sig, msg + ' [%s, cycles %r, %d preemptions]'
                              % (variant_name(cfg), cfg['cycles'], res.preemptions), case)
    return None


def exclusions():
    if os.environ.get('VERIF_C07_NO_EXCLUSION'):
        return frozenset()
    return frozenset(core.open_signatures(PROPERTY))


# ------------------------------------------------------------------------------------------------
# (i) bounded-exhaustive: every schedule with <= k preemptions

def dfs_configs(tier):
    """(configuration, preemption bound) pairs; every schedule within the bound is executed.
    Measured tree sizes (file-remove, with the inode re-check): 2x2: k=2 0.9k, k=3 4.6k, k=5 119k schedules;
    1x1x1: k=2 5.2k, k=3 56k; SemLock n>=2 multiplies by the randint draws."""
    quick = tier == 'quick'

    def cfg(kind, remove, n, cycles, perm=None, t=1, keep=None, faults=()):
        return {'kind': kind, 'remove': remove, 'n': n, 'perm': perm, 'timeout_steps': t, 'cycles': cycles,
                'keep': list(keep) if keep else [False] * len(cycles), 'faults': [list(f) for f in faults]}
    out = []
    for kind, remove, n in (('file', True, 1), ('file', False, 1), ('sem', False, 1), ('sem', False, 2)):
        big = kind == 'sem' and n > 1
        main = kind == 'file' and remove
        sem1 = kind == 'sem' and n == 1        # SemLock(n=1) runs the same calls as FileLock keep-the-file
        out.append((cfg(kind, remove, n, [2, 2]), (2 if big or sem1 else 3) if quick else (4 if big else 5)))
        out.append((cfg(kind, remove, n, [1, 1, 1]), (1 if sem1 else 2) if quick else (4 if main else 3)))
        if kind == 'file' or not quick:
            # file_permissions adds the exists/chmod calls; SemLock shares that code path with FileLock
            out.append((cfg(kind, remove, n, [2, 2], perm='644'), 2 if quick else 3))
            out.append((cfg(kind, remove, n, [1, 1, 1], perm='644'), (2 if main else 1) if quick else (3 if main else 2)))
    # longer polling (three attempts per lock call) for the release-by-remove style
    out.append((cfg('file', True, 1, [2, 2], t=2), 2 if quick else 4))
    # unlink refused (EPERM, file stays) in some unlock calls; lock objects kept alive / thrown away
    out.append((cfg('file', True, 1, [2, 2], keep=[1, 1], faults=[(0, 0)]), 2 if quick else 3))
    out.append((cfg('file', True, 1, [2, 2], keep=[1, 0], faults=[(0, 0), (1, 0)]), 2 if quick else 3))
    out.append((cfg('file', True, 1, [2, 2], keep=[0, 0], faults=[(0, 1), (1, 0)]), 2 if quick else 3))
    out.append((cfg('file', True, 1, [2, 2], keep=[1, 1]), 2 if quick else 4))
    out.append((cfg('file', True, 1, [1, 1, 1], keep=[1, 1, 1], faults=[(1, 0)]), 1 if quick else 3))
    if not quick:
        out.append((cfg('file', False, 1, [2, 2], keep=[1, 1]), 3))
        out.append((cfg('sem', False, 2, [2, 2], keep=[1, 1]), 2))
        out.append((cfg('file', True, 1, [2, 2], perm='644', keep=[1, 0], faults=[(0, 0)]), 2))
        out.append((cfg('file', True, 1, [1, 1, 1], t=2), 3))
        out.append((cfg('sem', False, 3, [1, 1, 1]), 2))
        out.append((cfg('file', True, 1, [1, 1, 1, 1]), 2))
        out.append((cfg('file', True, 1, [2, 1, 1]), 2))
    return out


def dfs_shard(shard, nshards, seed, tier):
    stats = core.Stats()
    excl = exclusions()
    lockdir = scratch_dir()
    scope = []
    try:
        for ci, (cfg, bound) in enumerate(dfs_configs(tier)):
            def run_fn(ch, cfg=cfg):
                return run_case(cfg, ch, lockdir, excl)
            roots = detsched.split_prefixes(run_fn, bound, nshards * 12)
            n = 0
            found = set()
            for ri, root in enumerate(roots):
                if ri % nshards != shard:
                    continue
                for ch, res in detsched.explore(run_fn, bound, root):
                    n += 1
                    v = judge(cfg, res, stats, 'dfs')
                    if v is not None and v.signature not in found:
                        found.add(v.signature)
                        stats.violations.append(v)
            stats.extra['dfs_schedules'] = stats.extra.get('dfs_schedules', 0) + n
            tag = ''
            if any(cfg.get('keep') or []) or cfg.get('faults'):
                tag = ' kept-objects=%r remove-EPERM-at(contender,cycle)=%r' % (
                    [int(bool(k)) for k in cfg['keep']], cfg['faults'])
            scope.append('%s perm=%s cycles=%r timeout=%d step%s: all schedules with <= %d preemptions'
                         % (variant_name(cfg), cfg['perm'], cfg['cycles'], cfg['timeout_steps'], tag, bound))
            stats.extra['dfs_schedules:%s/perm=%s/T%d/%s%s/k%d' % (
                variant_name(cfg), cfg['perm'], cfg['timeout_steps'], 'x'.join(map(str, cfg['cycles'])),
                ('/keep%s/faults%s' % (''.join(str(int(bool(k))) for k in cfg['keep']),
                                       ','.join('%d.%d' % tuple(f) for f in cfg['faults']))
                 if any(cfg['keep']) or cfg['faults'] else ''), bound)] = n
    finally:
        shutil.rmtree(lockdir, ignore_errors=True)
    if shard == 0:
        stats.extra['exhaustive_scope'] = scope
    return stats


# ------------------------------------------------------------------------------------------------
# (ii) Hypothesis-generated schedules

@st.composite
def cases(draw):
    variant = draw(st.sampled_from(['file-remove', 'file-remove', 'file-keep', 'sem', 'sem']))
    ncont = draw(st.integers(2, 4))
    cycles = [draw(st.integers(1, 3)) for _ in range(ncont)]
    cfg = {'kind': 'sem' if variant == 'sem' else 'file', 'remove': variant == 'file-remove',
           'n': draw(st.integers(1, 3)) if variant == 'sem' else 1,
           'perm': draw(st.sampled_from([None, None, '644'])),
           'cycles': cycles, 'timeout_steps': draw(st.sampled_from([1, 1, 2, 3, 5]))}
    # lock objects: throw-away per cycle, one kept-alive object per contender, or a mix
    mode = draw(st.sampled_from(['throw-away', 'throw-away', 'kept', 'mixed']))
    if mode == 'throw-away':
        cfg['keep'] = [False] * ncont
    elif mode == 'kept':
        cfg['keep'] = [True] * ncont
    else:
        cfg['keep'] = [draw(st.booleans()) for _ in range(ncont)]
    # injected fault: os.remove refused with EPERM (file stays) in a drawn subset of the unlock calls
    cfg['faults'] = []
    if variant == 'file-remove' and draw(st.integers(0, 2)) > 0:
        units = [(t, c) for t in range(ncont) for c in range(cycles[t])]
        picked = draw(st.lists(st.sampled_from(units), min_size=1, max_size=min(4, len(units)), unique=True))
        cfg['faults'] = sorted([t, c] for t, c in picked)
    pairs = draw(st.lists(st.tuples(st.integers(0, 12 * ncont), st.integers(0, 3)), max_size=8))
    data = draw(st.lists(st.integers(0, 2), max_size=6))
    return {'cfg': cfg, 'pairs': pairs, 'data': data}


class HypChooser(detsched.SparseChooser):
    """SparseChooser whose default at a sleep point is to let another thread run (a waiter that always
    continues would spin straight into its timeout)."""

    def pick(self, kind, n, costs, info):
        v = detsched.SparseChooser.pick(self, kind, n, costs, info)
        if kind == 'thread' and info['current'] is not None and info['voluntary']:
            return (v + 1) % n
        return v


def hyp_shard(shard, nshards, seed, tier):
    stats = core.Stats()
    excl = exclusions()
    lockdir = scratch_dir()
    n = (12000 if tier == 'quick' else 400000) // nshards

    def check(case, st_):
        res = run_case(case['cfg'], HypChooser(case['pairs'], case['data']), lockdir, excl)
        return judge(case['cfg'], res, st_, 'hyp')

    try:
        core.hyp_search(cases(), check, stats, max_examples=n, seed=seed)
    finally:
        shutil.rmtree(lockdir, ignore_errors=True)
    return stats


def run(tier, seed, stats):
    ex = core.parallel(dfs_shard, 16, seed, tier)
    stats.merge(ex)
    # exhaustive for the stated bound unless a run hit the step bound; sub-trees below the entry into a known
    # finding's construct are pruned (counted in excluded_by_construction) while that finding is open
    stats.extra['exhaustive'] = not ex.inconclusive.get('step-bound')
    stats.merge(core.parallel(hyp_shard, 16, seed, tier))


def replay(case, stats):
    cfg = public_cfg(case)
    lockdir = scratch_dir()
    try:
        res = run_case(cfg, detsched.ListChooser(case['choices']), lockdir, frozenset())
    finally:
        shutil.rmtree(lockdir, ignore_errors=True)
    v = judge(cfg, res, stats, 'replay')
    return [v] if v else []
