"""detsched - deterministic cooperative scheduler for real Python threads.

Purpose: make "the schedule" of a multi-threaded piece of real code a *value* that a test generates
(Hypothesis), enumerates (stateless DFS with a preemption bound) or replays (JSON list of ints).

Model
-----
* The threads are real `threading.Thread`s running real code, but exactly ONE of them is runnable at any
  time (baton passing over one semaphore per thread).  Control can change hands only inside
  `point(label, ...)` calls ("yield points") that the harness plants in front of the operations whose
  interleaving matters (by monkey-patching module attributes of the code under test), when a thread
  finishes, and inside `sleep()`.  Everything between two yield points of a thread is one atomic step.
* At a yield point the scheduler computes the *enabled* threads (not finished, and their `enabled`
  predicate - if the point has one - returns true), and asks a *chooser* which of them runs next.
  Blocking primitives are modelled as `point(label, enabled=lambda: <condition holds>)`: the thread is
  simply not eligible until the condition holds (see `DetLock` for an example).
* A decision is only taken (and recorded) when there are >= 2 options.  The options are ordered
  deterministically: the thread that just yielded comes first if it is itself still enabled ("continue",
  cost 0), then the other enabled threads by ascending id.  Choosing another thread although the
  current one could continue is a *preemption* (cost 1) unless the point was declared `voluntary=True`
  (sleep, explicit yield) - this is the CHESS notion used by the preemption-bounded search.
* `choice(n, label)` is a *data* decision (e.g. the value returned by a patched `random.randint`) that
  goes through the same chooser and is recorded in the same decision list, so one flat list of ints
  reproduces thread schedule and data nondeterminism together.
* Virtual time: `now()` returns the virtual clock, `sleep(d)` is a voluntary yield point.
  sleep_mode='eager' (default): a sleeper stays eligible; when it is chosen the clock jumps to its wake-up
  time (clock = max(clock, wake)).  This explores *all* interleavings (other threads may be arbitrarily
  slow) while keeping time monotone.  sleep_mode='idle': discrete-event semantics - a sleeper is not eligible
  before its wake-up time and the clock advances only when nothing else is enabled.
* Outcomes of `Scheduler.run()` (attribute `outcome`):
    'done'        all threads finished
    'deadlock'    no thread enabled although some are unfinished (`blocked` lists them with their labels)
    'step-bound'  more than `max_steps` scheduling steps (inconclusive, never a verdict)
    'stopped:<r>' some thread / hook called `stop(r)` (used to cut a run, e.g. known-defect exclusion)
  Wall-clock time-outs of the harness itself (a thread did not reach its next yield point within
  `wall_timeout` seconds) raise `SchedulerError` - a harness error, never a verdict.
* An exception that escapes a thread's function is a harness error too (`SchedulerError` from `run()`);
  thread functions are expected to catch what the code under test may legitimately raise.
  `Abort` (a BaseException) is raised inside threads to unwind them when a run is cut; while unwinding,
  `point()` is a no-op so `finally:` blocks and `__del__` methods of the code under test run unhindered.

API
---
    sched = Scheduler(chooser, max_steps=5000, sleep_mode='eager', wall_timeout=60.0)
    sched.spawn(fn, name=None, args=())     register a thread (before run(), or from a managed thread)
    sched.run()                             run to an outcome; returns the outcome string
    sched.log(kind, **data)                 append (seq, thread id, kind, data) to sched.trace
    sched.decisions                         list of Decision(kind, n, chosen, costs, label)
    sched.choices()                         [d.chosen for d in decisions] - the replayable schedule
    sched.preemptions()                     total cost of the decisions taken
    with sched.adopt_threads(): ...         threads started by the code under test (Thread.start) from a
                                            managed thread become managed threads (ids in start order),
                                            Thread.join becomes a blocking yield point
  functions usable from patched code (no-ops / neutral values when the calling thread is not managed,
  so patched module attributes keep working from the main thread):
    point(label, enabled=None, voluntary=False)    yield point
    sleep(seconds), now()                          virtual clock
    choice(n, label='')                            data decision in range(n)  (0 when unmanaged)
    current()                                      (scheduler, thread id) or (None, -1)
    stop(reason)                                   cut the run
  choosers - any object with `.pick(kind, n, costs, info) -> index in range(n)`; kind is 'thread' or 'data',
  costs[i] the preemption cost of option i, info for thread decisions = {'options': [thread ids],
  'labels': [label of the point each option waits at], 'current': id of the yielding thread if it is
  option 0 else None, 'voluntary': bool}, for data decisions {'label': ...}:
    ListChooser(choices, default=0)         dense list of option indices (taken modulo n), `default`
                                            afterwards - used for replay
    SparseChooser(pairs, data=())           [(gap, alt), ...]: let `gap` thread decisions take option 0,
                                            then take alternative 1 + alt % (n-1); data decisions are
                                            served from the separate cyclic list `data` - convenient as a
                                            Hypothesis strategy target (few, well placed preemptions;
                                            shrinks towards "no preemption")
    DFSChooser(prefix)                      follows `prefix`, then option 0; used by explore()
  search:
    explore(run_fn, bound, root=())         stateless DFS: yields (chooser, result) for EVERY schedule
                                            below `root` whose total preemption cost is <= bound;
                                            run_fn(chooser) must build a fresh world, run it, and return
                                            anything (it is re-executed once per schedule)
    split_prefixes(run_fn, bound, min_count, max_depth=24)
                                            enumerate decision prefixes (subtree roots) so that the tree
                                            can be sharded: the union of explore(root=p) over the returned
                                            prefixes is exactly explore(root=()), without overlap
"""
import collections
import contextlib
import threading
import traceback

__all__ = ['Scheduler', 'SchedulerError', 'Abort', 'ListChooser', 'SparseChooser', 'DFSChooser',
           'explore', 'split_prefixes', 'point', 'sleep', 'now', 'choice', 'current', 'stop', 'DetLock']


class SchedulerError(Exception):
    """Harness problem (wall-clock time-out, nondeterministic re-execution, escaped exception)."""


class Abort(BaseException):
    """Raised inside managed threads to unwind them when a run is cut."""


Decision = collections.namedtuple('Decision', 'kind n chosen costs label')

_tls = threading.local()

NEW, READY, SLEEPING, FINISHED = 'new', 'ready', 'sleeping', 'finished'


class _T(object):
    __slots__ = ('id', 'name', 'fn', 'args', 'sem', 'state', 'enabled', 'label', 'wake', 'exc', 'os_thread')

    def __init__(self, id, name, fn, args):
        self.id = id
        self.name = name
        self.fn = fn
        self.args = args
        self.sem = threading.Semaphore(0)
        self.state = NEW
        self.enabled = None
        self.label = 'start'
        self.wake = 0.0
        self.exc = None
        self.os_thread = None


class Scheduler(object):
    def __init__(self, chooser, max_steps=5000, sleep_mode='eager', wall_timeout=60.0, epoch=1000000.0):
        assert sleep_mode in ('eager', 'idle')
        self.chooser = chooser
        self.max_steps = max_steps
        self.sleep_mode = sleep_mode
        self.wall_timeout = wall_timeout
        self.clock = epoch
        self.threads = []
        self.trace = []
        self.decisions = []
        self.steps = 0
        self.switches = 0
        self.outcome = None
        self.blocked = []
        self.current = None
        self._aborting = False
        self._running = False
        self._main = threading.Semaphore(0)
        self._by_os = {}

    # ------------------------------------------------------------------ registration / running
    def spawn(self, fn, name=None, args=()):
        t = _T(len(self.threads), name or 't%d' % len(self.threads), fn, args)
        self.threads.append(t)
        if self._running:
            self._start_os_thread(t)
        return t.id

    def _start_os_thread(self, t):
        th = threading.Thread(target=self._body, args=(t,), name='detsched-' + t.name)
        th.daemon = True
        t.os_thread = th
        th.start()

    def run(self):
        if self._running:
            raise SchedulerError('Scheduler.run() called twice')
        self._running = True
        for t in list(self.threads):
            self._start_os_thread(t)
        try:
            if self.threads:
                self._switch(None, False)
                if not self._main.acquire(timeout=self.wall_timeout * 2):
                    self.outcome = 'harness-timeout'
                    self._aborting = True
                    raise SchedulerError('wall-clock time-out: no outcome after %.0f s (current=%r, steps=%d)'
                                         % (self.wall_timeout * 2, self.current and self.current.name, self.steps))
            else:
                self.outcome = 'done'
        finally:
            self._reap()
        for t in self.threads:
            if t.exc is not None:
                raise SchedulerError('exception escaped managed thread %s:\n%s' % (t.name, t.exc))
        return self.outcome

    def _reap(self):
        """Unwind (if the run was cut) and join every OS thread, one at a time."""
        self._aborting = self._aborting or self.outcome != 'done'
        stuck = []
        for t in list(self.threads):
            th = t.os_thread
            if th is None:
                continue
            if th.is_alive():
                if self._aborting:
                    t.sem.release()
                th.join(self.wall_timeout)
                if th.is_alive():
                    stuck.append(t.name)
        if stuck:
            raise SchedulerError('threads did not terminate: %r (outcome %r)' % (stuck, self.outcome))

    def _body(self, t):
        _tls.ctx = (self, t)
        t.sem.acquire()
        try:
            if self._aborting:
                return
            t.state = READY
            t.fn(*t.args)
        except Abort:
            pass
        except BaseException:
            t.exc = traceback.format_exc()
        finally:
            t.state = FINISHED
            t.enabled = None
            _tls.ctx = None
            if not self._aborting:
                try:
                    self._switch(t, True)
                except Abort:
                    pass
                except BaseException:
                    t.exc = traceback.format_exc()
                    self._aborting = True
                    self.outcome = 'harness-error'
                    self._main.release()

    # ------------------------------------------------------------------ scheduling core
    def _eligible(self):
        out = []
        for t in self.threads:
            if t.state == FINISHED:
                continue
            if t.state == SLEEPING and self.sleep_mode == 'idle' and t.wake > self.clock:
                continue
            if t.enabled is not None and not t.enabled():
                continue
            out.append(t)
        return out

    def _cut(self, cur, outcome):
        """End the run with `outcome`; the calling managed thread (if alive) is unwound with Abort."""
        if not self._aborting:
            self.outcome = outcome
            self._aborting = True
            self._main.release()
        if cur is not None and cur.state != FINISHED:
            cur.sem.acquire(timeout=self.wall_timeout)
            raise Abort()

    def _switch(self, cur, voluntary):
        self.steps += 1
        if self.steps > self.max_steps:
            self._cut(cur, 'step-bound')
            return
        en = self._eligible()
        if not en and self.sleep_mode == 'idle':
            sleepers = [t for t in self.threads if t.state == SLEEPING and (t.enabled is None or t.enabled())]
            if sleepers:
                self.clock = max(self.clock, min(t.wake for t in sleepers))
                en = self._eligible()
        if not en:
            if all(t.state == FINISHED for t in self.threads):
                self.outcome = 'done'
                self._main.release()
                return
            self.blocked = [(t.name, t.label) for t in self.threads if t.state != FINISHED]
            self._cut(cur, 'deadlock')
            return
        if cur is not None and cur.state != FINISHED and cur in en:
            options = [cur] + [t for t in en if t is not cur]
            costs = (0,) + ((0 if voluntary else 1),) * (len(options) - 1)
        else:
            options = en
            costs = (0,) * len(options)
        if len(options) > 1:
            idx = self.chooser.pick('thread', len(options), costs,
                                    {'options': [t.id for t in options], 'labels': [t.label for t in options],
                                     'current': cur.id if options[0] is cur else None, 'voluntary': bool(voluntary)})
            if not (isinstance(idx, int) and 0 <= idx < len(options)):
                raise SchedulerError('chooser returned %r for %d options' % (idx, len(options)))
            self.decisions.append(Decision('thread', len(options), idx, costs,
                                           cur.label if cur is not None else 'start'))
        else:
            idx = 0
        nxt = options[idx]
        self.current = nxt
        if nxt is cur:
            return
        self.switches += 1
        nxt.sem.release()
        if cur is not None and cur.state != FINISHED:
            self._wait(cur)

    def _wait(self, t):
        if not t.sem.acquire(timeout=self.wall_timeout):
            self.outcome = 'harness-timeout'
            self._aborting = True
            self._main.release()
            raise SchedulerError('wall-clock time-out waiting for the baton in %s at %r' % (t.name, t.label))
        if self._aborting:
            raise Abort()

    # ------------------------------------------------------------------ operations for managed threads
    def _me(self):
        ctx = getattr(_tls, 'ctx', None)
        if ctx is None or ctx[0] is not self:
            return None
        return ctx[1]

    def point(self, label, enabled=None, voluntary=False):
        t = self._me()
        if t is None or self._aborting:
            return
        if self.current is not t:
            raise SchedulerError('point(%r) from %s which does not hold the baton (held by %r)'
                                 % (label, t.name, self.current and self.current.name))
        t.label = label
        t.enabled = enabled
        try:
            self._switch(t, voluntary)
        finally:
            t.enabled = None

    def sleep(self, seconds):
        t = self._me()
        if t is None or self._aborting:
            self.clock += max(0.0, seconds)
            return
        t.wake = self.clock + max(0.0, seconds)
        t.state = SLEEPING
        try:
            self.point('sleep', voluntary=True)
        finally:
            t.state = READY
        if self.clock < t.wake:
            self.clock = t.wake

    def now(self):
        return self.clock

    def choice(self, n, label=''):
        t = self._me()
        if t is None or self._aborting or n <= 1:
            return 0
        idx = self.chooser.pick('data', n, (0,) * n, {'label': label})
        if not (isinstance(idx, int) and 0 <= idx < n):
            raise SchedulerError('chooser returned %r for a data choice of %d' % (idx, n))
        self.decisions.append(Decision('data', n, idx, (0,) * n, label))
        return idx

    def stop(self, reason):
        t = self._me()
        self._cut(t, 'stopped:' + reason)

    def log(self, kind, **data):
        t = self._me()
        self.trace.append((len(self.trace), t.id if t is not None else -1, kind, data))

    def choices(self):
        return [d.chosen for d in self.decisions]

    def preemptions(self):
        return sum(d.costs[d.chosen] for d in self.decisions)

    # ------------------------------------------------------------------ threads started by the code under test
    @contextlib.contextmanager
    def adopt_threads(self):
        """While active, `threading.Thread.start` called from a managed thread registers the new thread
        with this scheduler (it runs only when chosen) and `Thread.join` on such a thread is a blocking
        yield point (join with a timeout is treated as always enabled)."""
        sched = self
        orig_start, orig_join = threading.Thread.start, threading.Thread.join

        def start(th):
            me = sched._me()
            if me is None or sched._aborting:
                return orig_start(th)
            t = _T(len(sched.threads), 'adopted%d' % len(sched.threads), None, ())
            sched.threads.append(t)
            t.os_thread = th
            sched._by_os[th] = t
            user_run = th.run

            def run():
                t.fn = user_run
                sched._body(t)
            th.run = run
            orig_start(th)
            sched.point('thread-start')

        def join(th, timeout=None):
            t = sched._by_os.get(th)
            if t is None or sched._me() is None or sched._aborting:
                return orig_join(th, timeout)
            if timeout is None:
                sched.point('join', enabled=lambda: t.state == FINISHED)
            else:
                sched.point('join-timeout')
            if t.state == FINISHED:
                orig_join(th, sched.wall_timeout)

        threading.Thread.start, threading.Thread.join = start, join
        try:
            yield
        finally:
            threading.Thread.start, threading.Thread.join = orig_start, orig_join


# ------------------------------------------------------------------------------------------------
# module level convenience (what patched code calls)

def current():
    ctx = getattr(_tls, 'ctx', None)
    if ctx is None:
        return (None, -1)
    return (ctx[0], ctx[1].id)


def point(label, enabled=None, voluntary=False):
    s = current()[0]
    if s is not None:
        s.point(label, enabled, voluntary)


def sleep(seconds):
    s = current()[0]
    if s is not None:
        s.sleep(seconds)


def now():
    s = current()[0]
    return s.now() if s is not None else 0.0


def choice(n, label=''):
    s = current()[0]
    return s.choice(n, label) if s is not None else 0


def stop(reason):
    s = current()[0]
    if s is not None:
        s.stop(reason)


class DetLock(object):
    """Drop-in for threading.Lock under the scheduler (example of a modelled blocking primitive)."""

    def __init__(self):
        self._owner = None

    def acquire(self, blocking=True, timeout=-1):
        s, tid = current()
        if s is None:
            if self._owner is not None:
                return False
            self._owner = -1
            return True
        if not blocking or (timeout is not None and timeout >= 0):
            s.point('lock-try')
            if self._owner is not None:
                return False
        else:
            s.point('lock-acquire', enabled=lambda: self._owner is None)
        self._owner = tid
        return True

    def release(self):
        self._owner = None

    def locked(self):
        return self._owner is not None

    __enter__ = acquire

    def __exit__(self, *exc):
        self.release()


# ------------------------------------------------------------------------------------------------
# choosers

class ListChooser(object):
    def __init__(self, choices, default=0):
        self.choices = list(choices)
        self.default = default
        self.i = 0

    def pick(self, kind, n, costs, info):
        if self.i < len(self.choices):
            v = self.choices[self.i] % n
        else:
            v = self.default % n
        self.i += 1
        return v


class SparseChooser(object):
    def __init__(self, pairs, data=()):
        self.pairs = [tuple(p) for p in pairs]
        self.data = list(data)
        self.k = 0
        self.gap = self.pairs[0][0] if self.pairs else None
        self.d = 0

    def pick(self, kind, n, costs, info):
        if kind == 'data':
            if not self.data:
                return 0
            v = self.data[self.d % len(self.data)] % n
            self.d += 1
            return v
        if self.gap is None:
            return 0
        if self.gap > 0:
            self.gap -= 1
            return 0
        alt = self.pairs[self.k][1]
        self.k += 1
        self.gap = self.pairs[self.k][0] if self.k < len(self.pairs) else None
        return 1 + alt % (n - 1)


class DFSChooser(object):
    def __init__(self, prefix):
        self.prefix = list(prefix)
        self.i = 0
        self.shape = []   # (n, costs) per decision, for back-tracking and the determinism check

    def pick(self, kind, n, costs, info):
        if self.i < len(self.prefix):
            v = self.prefix[self.i]
            if v >= n:
                raise SchedulerError('nondeterministic re-execution: decision %d has %d options, prefix wants %d'
                                     % (self.i, n, v))
        else:
            v = 0
        self.i += 1
        self.shape.append((n, costs, v))
        return v


def _next_prefix(shape, bound, lo, hi=None):
    """Deepest decision index i (lo <= i < hi) that has an affordable untried alternative."""
    spent = [0]
    for n, costs, v in shape:
        spent.append(spent[-1] + costs[v])
    top = len(shape) if hi is None else min(hi, len(shape))
    for i in range(top - 1, lo - 1, -1):
        n, costs, v = shape[i]
        for j in range(v + 1, n):
            if spent[i] + costs[j] <= bound:
                return [s[2] for s in shape[:i]] + [j]
    return None


def explore(run_fn, bound, root=()):
    """Stateless depth-first enumeration of every schedule below the decision prefix `root` whose total
    preemption cost is <= bound.  Yields (chooser, result_of_run_fn)."""
    root = list(root)
    prefix = list(root)
    while prefix is not None:
        ch = DFSChooser(prefix)
        result = run_fn(ch)
        if ch.i < len(prefix):
            raise SchedulerError('nondeterministic re-execution: run took %d decisions, prefix has %d'
                                 % (ch.i, len(prefix)))
        yield ch, result
        prefix = _next_prefix(ch.shape, bound, len(root))


def split_prefixes(run_fn, bound, min_count, max_depth=24):
    """Decision prefixes p_1..p_m (m >= min_count if the tree is large enough) such that the subtrees
    explore(root=p_i) partition the bounded schedule tree."""
    depth = 2
    while True:
        out = []
        prefix = []
        while prefix is not None:
            ch = DFSChooser(prefix)
            run_fn(ch)
            out.append(tuple(s[2] for s in ch.shape[:depth]))
            prefix = _next_prefix(ch.shape, bound, 0, depth)
        if len(out) >= min_count or depth >= max_depth:
            return out
        depth += 2


# ------------------------------------------------------------------------------------------------
# self-test / usage example:  cd /verif && /venv/bin/python -m vcheck.detsched

def _selftest():
    # 1. classic lost update: two threads do read; yield; write.  DFS finds both final values.
    def lost_update(ch):
        box = {'v': 0}
        s = Scheduler(ch)

        def inc():
            point('read')
            v = box['v']
            point('write')
            box['v'] = v + 1
        s.spawn(inc)
        s.spawn(inc)
        assert s.run() == 'done'
        return box['v']
    finals = collections.Counter(r for _, r in explore(lost_update, bound=2))
    assert set(finals) == {1, 2}, finals
    assert set(r for _, r in explore(lost_update, bound=0)) == {2}
    # sharding partitions the tree
    roots = split_prefixes(lost_update, 2, 4)
    n = sum(1 for root in roots for _ in explore(lost_update, 2, root))
    assert n == sum(finals.values()), (n, finals)

    # 2. deadlock detection with modelled locks (AB / BA)
    def abba(ch):
        a, b = DetLock(), DetLock()
        s = Scheduler(ch)

        def t1():
            with a:
                with b:
                    pass

        def t2():
            with b:
                with a:
                    pass
        s.spawn(t1)
        s.spawn(t2)
        return s.run()
    outs = collections.Counter(r for _, r in explore(abba, bound=1))
    assert outs['deadlock'] > 0 and outs['done'] > 0, outs

    # 3. virtual time: eager and idle sleepers, replay of a recorded schedule
    def sleepy(ch, mode):
        s = Scheduler(ch, sleep_mode=mode, epoch=0.0)
        order = []

        def a():
            sleep(5)
            order.append(('a', now()))

        def b():
            point('x')
            order.append(('b', now()))
        s.spawn(a)
        s.spawn(b)
        assert s.run() == 'done'
        return order, s.choices()
    res = [r for _, r in explore(lambda ch: sleepy(ch, 'idle'), bound=2)]
    assert all(o == [('b', 0.0), ('a', 5.0)] for o, _ in res), res
    res = [r for _, r in explore(lambda ch: sleepy(ch, 'eager'), bound=2)]
    assert {tuple(o) for o, _ in res} == {(('b', 0.0), ('a', 5.0)), (('a', 5.0), ('b', 5.0))}, res
    for o, choices in res:
        assert sleepy(ListChooser(choices), 'eager')[0] == o

    # 4. threads started by the code under test are adopted; join blocks; step bound is reported
    def spawner(ch):
        s = Scheduler(ch)
        seen = []

        def worker(i):
            point('w')
            seen.append(i)

        def parent():
            ths = [threading.Thread(target=worker, args=(i,)) for i in range(2)]
            for th in ths:
                th.start()
            for th in ths:
                th.join()
            seen.append('joined')
        s.spawn(parent)
        with s.adopt_threads():
            assert s.run() == 'done'
        return tuple(seen)
    orders = set(r for _, r in explore(spawner, bound=2))
    assert orders == {(0, 1, 'joined'), (1, 0, 'joined')}, orders

    def spinner(ch):
        s = Scheduler(ch, max_steps=50)

        def spin():
            while True:
                point('spin')
        s.spawn(spin)
        return s.run()
    assert spinner(ListChooser([])) == 'step-bound'

    # 5. an escaped exception is a harness error, stop() cuts a run
    def boom(ch):
        s = Scheduler(ch)
        s.spawn(lambda: 1 / 0)
        s.run()
    try:
        boom(ListChooser([]))
    except SchedulerError:
        pass
    else:
        raise AssertionError('escaped exception not reported')

    def stopper(ch):
        s = Scheduler(ch)
        s.spawn(lambda: stop('enough'))
        s.spawn(lambda: point('never'))
        return s.run()
    assert stopper(ListChooser([])) == 'stopped:enough'
    assert threading.active_count() == 1, threading.enumerate()
    print('detsched self-test ok')


if __name__ == '__main__':
    _selftest()
